#!/bin/bash
# run every registered check's quick (or $1) tier against /repo, sequentially; print one line each
tier=${1:-quick}
cd /verif
for id in $(python3 -c "import json;print(' '.join(c['property_id'] for c in json.load(open('MANIFEST.json'))['checks']))"); do
  out=$(./check $id --tier $tier 2>&1); code=$?
  echo "$id exit=$code $(echo "$out" | tail -1)"
  echo "$out" | grep -E "^(VIOLATION|HARNESS-ERROR|KNOWN-FINDING|WARNING|note:)" | head -5
done
