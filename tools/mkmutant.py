#!/usr/bin/env python3
"""mkmutant.py <name> <repo-relative-file> <old> <new> [<file2> <old2> <new2> ...]
Writes /verif/mutants/<name>.patch (git-apply format) replacing exactly one occurrence of old by new."""
import difflib, sys, os
name = sys.argv[1]
rest = sys.argv[2:]
out = []
while rest:
    rel, old, new = rest[:3]
    rest = rest[3:]
    path = os.path.join('/repo', rel)
    src = open(path).read()
    old = old.encode().decode('unicode_escape')
    new = new.encode().decode('unicode_escape')
    assert src.count(old) == 1, f'{rel}: {src.count(old)} occurrences of {old!r}'
    dst = src.replace(old, new)
    out.extend(difflib.unified_diff(src.splitlines(True), dst.splitlines(True), 'a/' + rel, 'b/' + rel))
open(f'/verif/mutants/{name}.patch', 'w').write(''.join(out))
print(''.join(out))
