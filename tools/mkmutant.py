#!/usr/bin/env python3
"""mkmutant.py <name> <repo-relative-file> <old> <new> [<file2> <old2> <new2> ...]
Writes /verif/mutants/<name>.patch (git-apply format); every <old> must occur exactly once; several triples may
name the same file (applied in order, one diff per file)."""
import difflib, sys, os
name = sys.argv[1]
rest = sys.argv[2:]
orig, cur, order = {}, {}, []
while rest:
    rel, old, new = rest[:3]
    rest = rest[3:]
    if rel not in orig:
        orig[rel] = cur[rel] = open(os.path.join('/repo', rel)).read()
        order.append(rel)
    old = old.encode().decode('unicode_escape')
    new = new.encode().decode('unicode_escape')
    assert cur[rel].count(old) == 1, f'{rel}: {cur[rel].count(old)} occurrences of {old!r}'
    cur[rel] = cur[rel].replace(old, new)
out = []
for rel in order:
    out.extend(difflib.unified_diff(orig[rel].splitlines(True), cur[rel].splitlines(True), 'a/' + rel, 'b/' + rel))
open(f'/verif/mutants/{name}.patch', 'w').write(''.join(out))
print(''.join(out))
