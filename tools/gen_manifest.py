#!/usr/bin/env python3
"""Regenerates /verif/MANIFEST.json from the table below (single source of truth)."""
import json, os

HERE = os.path.dirname(os.path.dirname(os.path.abspath(__file__)))

NA = {
 'C01': 'meaning of a structured program is a pure function of (source text, initial globals): one deterministic run, no seam, fault, schedule or cut point; needs an independent source-level interpreter over generated programs (property-based/differential testing, a different family). DESIGN.md §6.',
 'C02': 'parse_expression(text) is a pure function of one string; precedence/associativity is decided by enumerating operator chains, not by any schedule or fault. DESIGN.md §6.',
 'C03': 'operator and built-in semantics are a pure function of (expression, operand values); evaluation order is fixed by the tree walk, nothing external can reorder it. DESIGN.md §6.',
 'C04': 'scoping, argument binding and library injection are a pure function of (program, supplied globals) within one call; no party behind a seam and no cut point. DESIGN.md §6.',
 'C07': 'well-formedness of the lowered model is a static property of parse_script output for one input text; pure. DESIGN.md §6.',
 'C11': 'value comparison is a pure function of two or three values (the zone it consults is a fixed parameter, varied under C16). DESIGN.md §6.',
 'C12': 'int/float spelling equivalence is a per-call metamorphic relation on argument values; no history, seam or cut point. DESIGN.md §6.',
 'C13': 'number <-> text round trip is a pure function of one double or one string. DESIGN.md §6.',
 'C14': 'jsonParse(jsonStringify(v)) == v is a pure function of one value. DESIGN.md §6.',
 'C18': 'lint_script(model) is a pure function of the model; "warning justified" is a metamorphic relation between two deterministic runs; lint has no state to share. DESIGN.md §6.',
 'C19': 'each data function is a pure function of its table arguments; relational oracles over generated tables are property-based testing. DESIGN.md §6.',
 'C20': 'diffLines(left,right) is a pure function of two texts and "shipped includes lint clean" is a static fact about files on disk. DESIGN.md §6.',
}

# property -> (engine, level, text, note, technique, design_ref)
CHECKS = {}

def load_checks():
    p = os.path.join(HERE, 'tools', 'checks_table.json')
    if os.path.exists(p):
        with open(p) as fh:
            return json.load(fh)
    return {}

def main():
    checks = load_checks()
    m = {
        'version': 1,
        'setup_cmd': 'cd /verif && ./check setup',
        'hooks': {
            'guard': 'BARE_SCRIPT_PY_VERIF',
            'enable': 'no hooks in /repo: every seam is an object the caller supplies (options dict subclass, fetchFn/logFn/urlFn/host functions, reader generator) or a module attribute rebound from outside (bare_script.library.datetime/.random, TZ+tzset); the guard name is reserved and unused',
            'baseline_off_cmd': 'cd /repo && /venv/bin/python -m pytest -ra -q -p no:cacheprovider --timeout=900 --continue-on-collection-errors',
            'source_commits': [],
            'add_only': True,
        },
        'engines': [
            {'name': 'exec-sim', 'path': 'bsim/', 'serves_properties': ['C05', 'C08', 'C09', 'C17'],
             'kind_free_text': 'seeded single-process simulator of the embedding boundary of execute_script/evaluate_expression: SimOptions statement-start seam, simulated fetch/log/url/host functions, baton-passed client threads, fault injection, RefVM reference model'},
            {'name': 'reader-sim', 'path': 'bsim/', 'serves_properties': ['C06', 'C10'],
             'kind_free_text': 'seeded simulator of the text reader feeding parse_script: chunked/torn/corrupted delivery, overlapping parses, RefLines reference reader'},
            {'name': 'heap-sim', 'path': 'bsim/', 'serves_properties': ['C15'],
             'kind_free_text': 'seeded histories of library calls by interleaved script clients over shared aliased containers, RefHeap reference heap'},
            {'name': 'clock-sim', 'path': 'bsim/', 'serves_properties': ['C16'],
             'kind_free_text': 'simulated wall clock (datetime proxy) + per-run TZ/tzset configuration, RefCal reference calendar'},
        ],
        'checks': [],
        'notes': 'One technique family: deterministic simulation with fault injection (DESIGN.md). Pure-function properties are listed under not_applicable.',
        'not_applicable': [],
    }
    for pid in sorted(checks):
        c = checks[pid]
        m['checks'].append({
            'property_id': pid,
            'quick_cmd': f'./check {pid} --tier quick',
            'thorough_cmd': f'./check {pid} --tier thorough',
            'evidence_file': f'/verif/evidence/{pid}.json',
            'replay_cmd_template': f'./check {pid} --replay {{path}}',
            'engine': c['engine'],
            'level_claimed': {'category': c['level'], 'text': c['text'], 'design_ref': c['design_ref']},
            'level_note': c['note'],
            'technique': c['technique'],
        })
    for pid in sorted(NA):
        if pid not in checks:
            m['not_applicable'].append({'property_id': pid, 'reason': NA[pid]})
    # claimed-in-design but not built yet -> listed as not applicable *for now* with that reason
    pending = load_pending()
    for pid in sorted(pending):
        if pid not in checks:
            m['not_applicable'].append({'property_id': pid, 'reason': pending[pid]})
    m['not_applicable'].sort(key=lambda e: e['property_id'])
    with open(os.path.join(HERE, 'MANIFEST.json'), 'w') as fh:
        json.dump(m, fh, indent=1)
        fh.write('\n')

def load_pending():
    p = os.path.join(HERE, 'tools', 'pending.json')
    if os.path.exists(p):
        with open(p) as fh:
            return json.load(fh)
    return {}

if __name__ == '__main__':
    main()
