#!/bin/bash
# take_seeded.sh <worktree> <property-id> <seeded-name>: verify a sub-agent's change independently and store it under /verif/seeded/<name>/
set -u
wt="$1"; id="$2"; name="$3"
out=/verif/seeded/$name
mkdir -p "$out"
cd "$wt" || exit 9
git diff -- src/bare_script > "$out/patch.diff"
[ -s "$out/patch.diff" ] || { echo "EMPTY PATCH"; exit 9; }
cp "$wt"/demo_*.py "$out/" 2>/dev/null
cp "$wt"/NOTES_*.md "$out/NOTES.md" 2>/dev/null
demo=$(ls "$wt"/demo_*.py | head -1)
echo "--- patch:"; cat "$out/patch.diff" | head -60
echo "--- suite WITH change:"
PYTHONPATH=$wt/src /venv/bin/python -m pytest -q -p no:cacheprovider src/tests 2>&1 | tail -1 | tee "$out/.suite"
PYTHONPATH=$wt/src /venv/bin/python -m pytest -q -p no:cacheprovider src/tests 2>&1 | grep "^FAILED" | sed 's/ - .*//' | sort > "$out/.failed"
echo "--- demo WITH change:"
( cd "$wt" && PYTHONPATH=$wt/src timeout 120 /venv/bin/python "$demo" > "$out/.demo_with" 2>&1; echo "exit=$?" | tee "$out/.demo_with_exit" ); tail -3 "$out/.demo_with"
git apply -R "$out/patch.diff" || { echo "CANNOT REVERT"; exit 9; }
echo "--- demo WITHOUT change:"
( cd "$wt" && PYTHONPATH=$wt/src timeout 120 /venv/bin/python "$demo" > "$out/.demo_without" 2>&1; echo "exit=$?" | tee "$out/.demo_without_exit" ); tail -2 "$out/.demo_without"
git apply "$out/patch.diff" || { echo "CANNOT REAPPLY"; exit 9; }
echo "--- my check against it ($id quick):"
/verif/tools/with_mutant.sh "$out/patch.diff" /verif/check $id --tier quick 2>&1 | grep -E "^VIOLATION|^violation|HARNESS|runs=|PATCH|KNOWN" | head -8 | tee "$out/.check"
