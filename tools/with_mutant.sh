#!/bin/bash
# with_mutant.sh <patch> <command...> : run command against a scratch copy of /repo with the patch applied
set -u
patch="$1"; shift
scratch=$(mktemp -d /tmp/bsim-scratch-XXXXXX)
trap 'rm -rf "$scratch"' EXIT
mkdir -p "$scratch/repo"
cp -r /repo/src "$scratch/repo/src"
find "$scratch" -name __pycache__ -type d -exec rm -rf {} + 2>/dev/null
( cd "$scratch/repo" && git apply --unsafe-paths -p1 "$patch" ) || { echo "PATCH FAILED"; exit 9; }
BSIM_REPO="$scratch/repo" "$@"
