#!/usr/bin/env python3
"""mk_agent_prompts.py <round-number> <task-text-file>: write /tmp/agent<r>_prompt_<ID>.txt for every claimed property.

The prompt gives a sub-agent only the property's text, its own scratch worktree /tmp/wt<r>-<ID> of /repo, the
baseline test result and one-line descriptions of the earlier seeded changes (to avoid repeats) — nothing of /verif.
The task text file holds the round's TASK paragraph ({dir} and {id} are substituted)."""
import glob
import json
import os
import sys

R = sys.argv[1]
TASK = open(sys.argv[2]).read().strip()
IDS = ['C05', 'C06', 'C08', 'C09', 'C10', 'C15', 'C16', 'C17']

props = {}
for line in open('/verif/properties.jsonl'):
    p = json.loads(line)
    props[p['id']] = p
prev = {}
for d in sorted(glob.glob('/verif/seeded/*/meta.json')):
    m = json.load(open(d))
    prev.setdefault(m['property'], []).append(m['needs_to_manifest'].split(' (')[0][:200])

BASE = '''You are working in a scratch git worktree of the open-source project bare-script-py ("BareScript for Python": a small scripting language with a regex-driven parser that lowers control flow to jumps, a tree-walking interpreter, a linter and a builtin library). Your worktree is {dir}. Work ONLY inside {dir} (plus throw-away files under /tmp/agent{r}-{id}/ if you need them). Never read, write or run anything under /repo or /verif or any other /tmp/wt* directory, and do not look for other copies of verification material on this machine: your result must be independent.

Tooling: /venv/bin/python (3.12). The venv has the package installed in editable mode from another location, so ALWAYS put your worktree first on the path: `cd {dir} && PYTHONPATH={dir}/src /venv/bin/python ...`. The test suite: `cd {dir} && PYTHONPATH={dir}/src /venv/bin/python -m pytest -q -p no:cacheprovider src/tests`. Baseline on the unmodified tree: 410 passed, 8 failed. The 8 baseline failures (they fail before any change; ignore them, but they must stay exactly these 8): test_data.py::TestData::test_aggregate_data_invalid, test_library.py::TestLibrary::test_data_aggregate, test_library.py::TestLibrary::test_schema_validate, test_library.py::TestLibrary::test_schema_validate_type_model, test_library.py::TestLibrary::test_system_fetch, test_model.py::TestModel::test_validate_expression_error, test_model.py::TestModel::test_validate_script_error, test_value.py::TestValue::test_value_args_model. There is no network. IMPORTANT: do NOT use `git stash` (the stash is shared between worktrees and other people are working in sibling worktrees): to run something without your change use `git diff > /tmp/agent{r}-{id}/change.patch && git apply -R /tmp/agent{r}-{id}/change.patch`, and `git apply /tmp/agent{r}-{id}/change.patch` to put it back.

Here is a semantic property of the project that is supposed to hold (id {id}):

TITLE: {title}
STATEMENT: {statement}
QUANTIFIED OVER: {quant}

{task}

Earlier, independent attempts already did the following changes; do NOT repeat any of them (nor a close variant):
{prev}

DELIVERABLES (all inside {dir}):
1. the change itself, left applied but UNCOMMITTED in the worktree (do not commit, do not modify or add tests under src/tests);
2. {dir}/demo_{id}.py — a small standalone program using only the public API of the package, run as `cd {dir} && PYTHONPATH={dir}/src /venv/bin/python demo_{id}.py`, that exits 0 on the unmodified tree and exits non-zero (e.g. failed assertion) with your change, because it observes the property violation; it must be deterministic;
3. {dir}/NOTES_{id}.md — the change (as a diff), why it breaks the property, exactly what is needed for it to manifest, which other candidates you tried and why they were rejected (killed by the test suite / not a violation), and the exact commands you ran with their results: the test suite with the change, the demo with the change, and the demo without the change.

Verify all of this yourself before you finish. Your final message should summarise the change and the verification results in a few lines.'''

for id_ in IDS:
    p = props[id_]
    os.makedirs(f'/tmp/agent{R}-{id_}', exist_ok=True)
    pv = '\n'.join(f'  - {x}' for x in prev.get(id_, []))
    dir_ = f'/tmp/wt{R}-{id_}'
    text = BASE.format(dir=dir_, r=R, id=id_, title=p['title'], statement=p['statement'], quant=p['quantifier']['text'],
                       task=TASK.replace('{dir}', dir_).replace('{id}', id_), prev=pv)
    with open(f'/tmp/agent{R}_prompt_{id_}.txt', 'w') as fh:
        fh.write(text)
print('ok')
