"""G-model / G-vfs: seeded generator of executable workloads in the RefVM fragment.

A plan is plain JSON data: the jump-level model (the IR is the BareScript model format), the VFS,
the environment answers and the fault plan. Every sub-plan of a plan is again a valid plan
(removing a statement, a file, a fault or an answer cannot make the workload leave the fragment),
which is what makes generic delta-debugging of failing plans sound.
"""
from . import ir
from .ir import num, s, var, call, binop, unop

DEFAULT_KNOBS = {
    'max_top': 14,          # statements at top level (before nesting)
    'max_body': 7,          # statements per function body / block
    'max_depth': 3,         # block nesting
    'n_funcs': 3,
    'p_nonterm': 0.15,      # probability that a loop-control site answers truthy forever
    'max_loop': 4,          # max truthy answers of a terminating loop site
    'include': False,       # VFS + include statements
    'include_depth': 3,
    'fanout': 2,
    'callbacks': True,      # systemPartial / hostCall / arrayIndexOf(fn) / data expressions
    'data': True,
    'raw_jumps': 0.25,      # share of unstructured label/jump statements (duplicates, unknown labels)
    'host_faults': 0,       # number of host failures to plan
    'fetch_faults': 0,
    'early_return': 0.1,
    'url_base': None,       # chosen by gen when include is on
}

PATH_BASES = ['/p/main.bare', 'p/q/main.bare', 'main.bare', '/main.bare', 'a/main.bare']
URL_BASES = ['http://h/a/b/main.bare', 'https://host.example/main.bare', 'http://h/main.bare', 'file:///r/s/main.bare']


class ExecGen:
    def __init__(self, rng, knobs=None):
        self.rng = rng
        self.k = dict(DEFAULT_KNOBS)
        if knobs:
            self.k.update(knobs)
        self.n_tick = 0
        self.n_site = 0
        self.n_label = 0
        self.n_obs = 0
        self.answers = {}
        self.exprs = {}
        self.funcs = []        # names of script functions (defined somewhere)
        self.files = {}
        self.used_hosts = set()
        self.budget = 0
        self.order = []        # call order: a function may only call functions after it

    # -- leaves ------------------------------------------------------------------------------
    def tick(self):
        self.n_tick += 1
        self.used_hosts.add('hostTick')
        e = call('hostTick', s(f't{self.n_tick}'))
        c = self.rng.random()
        # an expression statement need not be a bare call: the call may sit under a group, a unary or a
        # (short-circuiting) binary operator — it is evaluated all the same
        if c < 0.04:
            e = ir.group(e)
        elif c < 0.08:
            e = ir.unop('!', e)
        elif c < 0.12:
            e = ir.binop('&&', num(1), e)
        elif c < 0.16:
            e = ir.binop('||', ir.var('null'), e)
        elif c < 0.18:
            e = ir.binop('+', e, num(1))
        return ir.st_expr(e)

    def site(self, kind):
        """A fresh hostNext site. kind: 'loop' (k truthy then falsy, or forever), 'cond', 'num'."""
        r = self.rng
        name = f's{self.n_site}'
        self.n_site += 1
        self.used_hosts.add('hostNext')
        if kind == 'loop':
            if r.random() < self.k['p_nonterm']:
                self.answers[name] = {'seq': [1], 'cyclic': True, 'then': 1}
            else:
                self.answers[name] = {'seq': [1] * r.randint(0, self.k['max_loop']), 'then': 0}
        elif kind == 'cond':
            self.answers[name] = {'seq': [r.choice([0, 1, 1, None, True, False, 2, {}, {'k': 1}, [], [0], '', 'a'])
                                          for _ in range(r.randint(0, 4))],
                                  'then': r.choice([0, 1])}
        else:
            self.answers[name] = {'seq': [r.randint(0, 9) for _ in range(r.randint(0, 4))], 'then': r.randint(0, 3)}
        return call('hostNext', s(name))

    def num_expr(self, scope, depth=0):
        r = self.rng
        c = r.random()
        if depth >= 2 or c < 0.35:
            return num(r.randint(0, 9))
        if c < 0.6:
            return var(r.choice(scope['nums']))
        if c < 0.75:
            return self.site('num')
        if c < 0.80:
            # the special form if(cond, a, b): only the chosen branch is evaluated, in the scope of the caller
            # (inside a function the branches may name parameters and locals)
            return call('if', self.cond_expr(scope, 1), self.num_expr(scope, depth + 1), self.num_expr(scope, depth + 1))
        op = r.choice(['+', '-', '*', '+'])
        if op == '*':
            # one factor is always a small literal: a variable squared in a long loop makes CPython's arbitrary-
            # precision integers (host functions and arrayLength answer with ints) double their size every iteration
            return binop(op, self.num_expr(scope, depth + 1), num(r.randint(0, 9)))
        return binop(op, self.num_expr(scope, depth + 1), self.num_expr(scope, depth + 1))

    def cond_expr(self, scope, depth=0, kind='cond'):
        r = self.rng
        c = r.random()
        if depth >= 2 or c < 0.5:
            return self.site(kind)
        if c < 0.7:
            op = r.choice(['<', '<=', '>', '>=', '==', '!='])
            return binop(op, self.num_expr(scope, 1), self.num_expr(scope, 1))
        if c < 0.8:
            return unop('!', self.cond_expr(scope, depth + 1))
        op = r.choice(['&&', '||'])
        return binop(op, self.cond_expr(scope, depth + 1, kind), self.cond_expr(scope, depth + 1))

    def any_expr(self, scope):
        r = self.rng
        c = r.random()
        if c < 0.5:
            return self.num_expr(scope)
        if c < 0.6:
            return s(r.choice(['', 'a', 'xy']))
        if c < 0.7:
            return var(r.choice(['null', 'true', 'false']))
        if c < 0.82:
            return var(r.choice(scope['gens']))
        if c < 0.86:
            return call('objectNew', *([s('k'), num(1)] if r.random() < 0.4 else []))
        if c < 0.90 and self.callable_names(scope) and not scope.get('no_calls') and self.budget > 0:
            self.budget -= 1
            return call(r.choice(self.callable_names(scope)), *[self.num_expr(scope, 1) for _ in range(r.randint(0, 2))])
        return self.cond_expr(scope)

    def callable_names(self, scope):
        """Script functions that code in `scope` may call. Inside a function only functions later in
        the order are callable, so that every recursion in a workload is the guarded one: host-stack
        exhaustion must never decide an outcome."""
        if 'fn_index' not in scope:
            return self.funcs or ['fnA']
        return self.order[scope['fn_index'] + 1:]

    def fn_ref(self, scope):
        """An expression whose value is (usually) a script function."""
        r = self.rng
        if self.k.get('host_callbacks') and r.random() < self.k['host_callbacks']:
            name = r.choice(['hostTick', 'hostObserve', 'hostTick'])
            self.used_hosts.add(name)
            return var(name)
        names = self.callable_names(scope)
        if not names:
            return var('null')
        c = r.random()
        if c < 0.7 or 'fn_index' in scope:
            return var(r.choice(names))
        if c < 0.85:
            return call('systemPartial', var(r.choice(names)), num(r.randint(0, 5)))
        return var(r.choice(['g0', 'g1']))

    def call_args(self, scope):
        return [self.any_expr(scope) for _ in range(self.rng.randint(0, 3))]

    def call_expr(self, scope):
        """A call that may run script functions directly or as a callback."""
        r = self.rng
        names = self.callable_names(scope)
        if not names or scope.get('no_calls'):
            return call('hostTick', s('leaf'))
        choices = ['direct', 'direct', 'direct'] + (['var'] if 'fn_index' not in scope else [])
        if self.k['callbacks']:
            choices += ['hostCall', 'indexOf', 'lastIndexOf', 'partial', 'sort']
            if self.k['data']:
                choices += ['filter', 'calc', 'filter_vars', 'calc_vars', 'join', 'join_vars']
        kind = r.choice(choices)
        if kind == 'direct':
            return call(r.choice(names), *self.call_args(scope))
        if kind == 'var':
            return call(r.choice(scope['gens']), *self.call_args(scope))
        if kind == 'hostCall':
            self.used_hosts.add('hostCall')
            return call('hostCall', self.fn_ref(scope), *self.call_args(scope))
        if kind in ('indexOf', 'lastIndexOf'):
            arr = call('arrayNew', *[num(r.randint(0, 3)) for _ in range(r.randint(0, 3))]) \
                if r.random() < 0.7 else var(r.choice(scope['gens']))
            fn = 'arrayIndexOf' if kind == 'indexOf' else 'arrayLastIndexOf'
            return call(fn, arr, self.fn_ref(scope))
        if kind == 'sort':
            arr = call('arrayNew', *[num(r.randint(0, 5)) for _ in range(r.randint(0, 4))])
            return call('arraySort', arr, self.fn_ref(scope))
        if kind == 'partial':
            return call('systemPartial', var(r.choice(names)), *self.call_args(scope)[:2] or [num(1)])
        # data expressions: rows are objects built by objectNew is outside the RefVM library; rows come from globals
        fname = r.choice(names)
        if self.k.get('host_callbacks') and r.random() < self.k['host_callbacks']:
            fname = 'hostTick'
            self.used_hosts.add(fname)
        text = f'{fname}(ra, rb)' if r.random() < 0.5 else f'{fname}(ra)'
        args = [var('ra'), var('rb')] if ', rb' in text else [var('ra')]
        self.exprs[text] = call(fname, *args)
        rows = var(r.choice(['rows0', 'rows1']))
        if kind in ('join', 'join_vars'):
            # dataJoin(left, right, joinExpr[, rightExpr, isLeftJoin, variables]): the expression is evaluated once per
            # right row and once per left row
            other = var(r.choice(['rows0', 'rows1', 'rows0']))
            extra = []
            if kind == 'join_vars' or r.random() < 0.5:
                extra = [s(text) if r.random() < 0.5 else var('null'), var(r.choice(['true', 'false']))]
            if kind == 'join_vars':
                extra.append(var(r.choice(['vars0', 'vars0', 'vars1'])))
            return call('dataJoin', rows, other, s(text), *extra)
        if kind == 'filter':
            return call('dataFilter', rows, s(text))
        if kind == 'calc':
            return call('dataCalculatedField', rows, s('rc'), s(text))
        variables = var(r.choice(['vars0', 'vars0', 'vars1']))
        if kind == 'filter_vars':
            return call('dataFilter', rows, s(text), variables)
        return call('dataCalculatedField', rows, s('rc'), s(text), variables)

    # -- blocks ------------------------------------------------------------------------------
    def label(self):
        self.n_label += 1
        return f'L{self.n_label}'

    def block(self, scope, depth, size):
        r = self.rng
        out = []
        for _ in range(size):
            if self.budget <= 0:
                break
            self.budget -= 1
            c = r.random()
            if self.k.get('p_include') and scope.get('includes') and r.random() < self.k['p_include']:
                c = 0.93    # the include / fetch-probe branch below
            if c < 0.22:
                out.append(self.tick())
            elif c < 0.36:
                name = r.choice(scope['nums'])
                out.append(ir.st_expr(self.num_expr(scope), name))
            elif c < 0.44:
                name = r.choice(scope['gens'])
                c2 = r.random()
                if c2 < 0.4:
                    e = call('arrayNew', *[self.num_expr(scope, 1) for _ in range(r.randint(0, 3))])
                elif c2 < 0.8:
                    e = self.fn_ref(scope)
                else:
                    e = self.any_expr(scope)
                out.append(ir.st_expr(e, name))
            elif c < 0.60:
                e = self.call_expr(scope)
                if r.random() < 0.5:
                    out.append(ir.st_expr(e, r.choice(scope['nums'] + scope['gens'])))
                else:
                    out.append(ir.st_expr(e))
            elif c < 0.72 and depth < self.k['max_depth']:
                # loop: L: body ; jumpif (cond) L
                lab = self.label()
                out.append(ir.st_label(lab))
                out.append(self.tick())
                out.extend(self.block(scope, depth + 1, r.randint(0, self.k['max_body'] // 2)))
                out.append(ir.st_jump(lab, self.cond_expr(scope, 1, 'loop')))
            elif c < 0.82 and depth < self.k['max_depth']:
                # if: jumpif (!cond) Lend ; body ; Lend:
                lab = self.label()
                out.append(ir.st_jump(lab, self.cond_expr(scope)))
                out.extend(self.block(scope, depth + 1, r.randint(1, self.k['max_body'] // 2)))
                out.append(ir.st_label(lab))
            elif c < 0.82 + self.k['raw_jumps'] * 0.5:
                out.append(self.raw_jump(scope))
            elif c < 0.94 and scope.get('includes'):
                if self.k.get('fetch_probes') and scope.get('data') and r.random() < 0.35:
                    self.n_obs += 1
                    self.used_hosts.add('hostObserve')
                    out.append(ir.st_expr(call('hostObserve', s(f'o{self.n_obs}'),
                                               call('systemFetch', s(r.choice(scope['data']))))))
                else:
                    urls = [r.choice(scope['includes']) for _ in range(1 if r.random() < 0.8 else 2)]
                    urls = [u for u in urls if u != '__probe_only__']
                    if urls:
                        out.append(ir.st_include(*urls))
                    else:
                        out.append(self.tick())
            elif r.random() < self.k['early_return'] * 3:
                out.append(ir.st_return(self.any_expr(scope) if r.random() < 0.6 else None))
            elif r.random() < 0.25:
                # explicit global access: inside a function an assignment is LOCAL, systemGlobalSet is not
                gname = r.choice(['n0', 'n1', 'g0', 'm0'])
                if r.random() < 0.6:
                    out.append(ir.st_expr(call('systemGlobalSet', s(gname), self.any_expr(scope))))
                else:
                    self.used_hosts.add('hostObserve')
                    self.n_obs += 1
                    out.append(ir.st_expr(call('hostObserve', s(f'o{self.n_obs}'),
                                               call('systemGlobalGet', s(gname), *([num(7)] if r.random() < 0.5 else [])))))
            else:
                self.used_hosts.add('hostObserve')
                self.n_obs += 1
                out.append(ir.st_expr(call('hostObserve', s(f'o{self.n_obs}'), self.any_expr(scope))))
        return out

    def raw_jump(self, scope):
        r = self.rng
        pool = scope['labels']
        c = r.random()
        if c < 0.4:
            return ir.st_label(r.choice(pool))
        if c < 0.6:
            return ir.st_jump(r.choice(pool))
        return ir.st_jump(r.choice(pool), self.cond_expr(scope, 1, 'loop'))

    def function(self, name, scope_g):
        r = self.rng
        nargs = r.randint(0, 3)
        args = [f'a{ix}' for ix in range(nargs)]
        shadow = None
        if nargs and r.random() < 0.3:
            # a parameter with the name of a global: a missing argument is null, NOT the global's value
            shadow = r.choice(['n0', 'n1', 'g0'])
            args[r.randrange(nargs)] = shadow
        last = nargs > 0 and r.random() < 0.2
        if name not in self.order:
            self.order.append(name)
        scope = {'nums': ['m0', 'm1'] + ([a for a in args[:2]] if args and not last else []) + ['n0'],
                 'gens': ['h0'] + (args[-1:] if args else []) + ['h1'],
                 'labels': ['R0', 'R1', 'G0'], 'fn_index': self.order.index(name),
                 'includes': scope_g.get('includes') if self.k.get('func_includes') else None}
        if r.random() < self.k.get('p_empty_function', 0.12):
            return ir.st_function(name, args, [], last)      # a legal function that starts no statement at all
        if r.random() < self.k.get('p_tiny_function', 0.12):
            # one-statement bodies: a lone return (with or without an expression), a lone tick, a lone jump
            c = r.random()
            one = ir.st_return(self.any_expr(scope)) if c < 0.5 else ir.st_return() if c < 0.65 else \
                self.tick() if c < 0.85 else ir.st_return(call('hostTick', s(f'thunk-{name}')))
            if c >= 0.85:
                self.used_hosts.add('hostTick')
            return ir.st_function(name, args if r.random() < 0.5 else [], [one], last and bool(args))
        body = [self.tick()]
        if shadow is not None:
            self.used_hosts.add('hostObserve')
            self.n_obs += 1
            body.append(ir.st_expr(call('hostObserve', s(f'o{self.n_obs}'), var(shadow))))
        if r.random() < 0.3:
            # if(cond, a, b) naming a parameter / local in BOTH branches: whichever is chosen is read in this call's scope
            self.used_hosts.add('hostObserve')
            self.n_obs += 1
            body.append(ir.st_expr(num(r.randint(20, 29)), 'm1'))
            local = var(args[0]) if args and not last else var('m1')
            body.append(ir.st_expr(call('hostObserve', s(f'o{self.n_obs}'),
                                        call('if', self.cond_expr(scope, 1), binop('+', var('m1'), num(1)), local))))
        if r.random() < 0.45:
            # guarded recursion: depth bounded by the answers of a fresh site
            lab = self.label()
            site = f's{self.n_site}'
            self.n_site += 1
            self.used_hosts.add('hostNext')
            self.answers[site] = {'seq': [1] * r.randint(0, 6), 'then': 0}
            body.append(ir.st_jump(lab, unop('!', call('hostNext', s(site)))))
            body.append(ir.st_expr(call(name, *[self.num_expr(scope, 1) for _ in range(nargs)]), 'm0'))
            body.append(ir.st_label(lab))
        body.extend(self.block(scope, 1, r.randint(0, self.k['max_body'])))
        if r.random() < 0.7:
            body.append(ir.st_return(self.any_expr(scope)))
        return ir.st_function(name, args, body, last)

    # -- structured source (lowered by the REAL parser; RefVM then runs the lowered model) ------
    def structured(self, scope, depth, size, in_loop, indent=''):
        r = self.rng
        out = []
        rx = ir.render_expr
        for _ in range(size):
            if self.budget <= 0:
                break
            self.budget -= 1
            c = r.random()
            if c < 0.25:
                out.append(indent + rx(self.tick()['expr']['expr']))
            elif c < 0.40:
                out.append(f"{indent}{r.choice(scope['nums'])} = {rx(self.num_expr(scope))}")
            elif c < 0.52 and self.funcs:
                e = self.call_expr(scope)
                if r.random() < 0.5:
                    out.append(f"{indent}{r.choice(scope['nums'])} = {rx(e)}")
                else:
                    out.append(indent + rx(e))
            elif c < 0.64 and depth < self.k['max_depth']:
                out.append(f"{indent}if {rx(self.cond_expr(scope))}:")
                out.extend(self.structured(scope, depth + 1, r.randint(1, 3), in_loop, indent + '    '))
                for _i in range(r.choice([0, 0, 1])):
                    out.append(f"{indent}elif {rx(self.cond_expr(scope))}:")
                    out.extend(self.structured(scope, depth + 1, r.randint(1, 2), in_loop, indent + '    '))
                if r.random() < 0.4:
                    out.append(f"{indent}else:")
                    out.extend(self.structured(scope, depth + 1, r.randint(1, 2), in_loop, indent + '    '))
                out.append(f"{indent}endif")
            elif c < 0.76 and depth < self.k['max_depth']:
                out.append(f"{indent}while {rx(self.site('loop'))}:")
                out.append(indent + '    ' + rx(self.tick()['expr']['expr']))
                out.extend(self.structured(scope, depth + 1, r.randint(0, 3), True, indent + '    '))
                out.append(f"{indent}endwhile")
            elif c < 0.88 and depth < self.k['max_depth']:
                items = ', '.join(rx(self.num_expr(scope, 1)) for _i in range(r.randint(0, 4)))
                idx = ', ix' if r.random() < 0.4 else ''
                out.append(f"{indent}for fv{idx} in arrayNew({items}):")
                out.append(indent + '    ' + rx(call('hostTick', s('for'), var('fv'))))
                out.extend(self.structured(scope, depth + 1, r.randint(0, 3), True, indent + '    '))
                out.append(f"{indent}endfor")
            elif in_loop and c < 0.94:
                out.append(indent + r.choice(['break', 'continue']))
            else:
                self.used_hosts.add('hostObserve')
                self.n_obs += 1
                out.append(indent + rx(call('hostObserve', s(f'o{self.n_obs}'), self.any_expr(scope))))
        return out

    def structured_plan(self):
        r = self.rng
        self.budget = self.k['max_top'] * 3
        self.funcs = [f'fn{c}' for c in 'AB'[:r.randint(0, 2)]]
        self.order = list(self.funcs)
        scope = {'nums': ['n0', 'n1', 'n2'], 'gens': ['g0', 'g1'], 'labels': ['G0'], 'includes': []}
        lines = []
        for ix, name in enumerate(self.funcs):
            fscope = {'nums': ['m0', 'a0', 'n0'], 'gens': ['h0', 'h1'], 'labels': ['R0'], 'fn_index': ix, 'includes': None}
            lines.append(f'function {name}(a0, a1):')
            lines.extend(self.structured(fscope, 1, r.randint(1, 4), False, '    '))
            if r.random() < 0.7:
                lines.append('    return ' + ir.render_expr(self.num_expr(fscope)))
            lines.append('endfunction')
        lines.extend(self.structured(scope, 0, r.randint(2, self.k['max_top']), False))
        plan = {'debug': False, 'has_log': True, 'has_fetch': True, 'source': '\n'.join(lines) + '\n', 'model': [],
                'globals': {'rows0': [{'ra': 1, 'rb': 2}], 'rows1': [], 'vars0': {'vx': 1}, 'vars1': {}}, 'answers': self.answers,
                'exprs': self.exprs, 'files': {}, 'faults': [], 'fetch_faults': []}
        return plan

    # -- VFS ---------------------------------------------------------------------------------
    def make_data(self, location):
        """Data files for systemFetch probes, named relative to `location`."""
        from . import resolve as R
        r = self.rng
        refs = []
        for ref in r.sample(['d0.txt', 'sub/d1.txt', '../d2.txt', '/abs/d3.txt', 'http://other/d4.txt', 'nodata.txt'],
                            r.randint(1, 3)):
            loc = R.ref_resolve(location, ref) if location is not None else ref
            norm = R.normalise(loc)
            if ref != 'nodata.txt' and norm not in self.files:
                self.files[norm] = {'data': True, 'text': 'data@' + norm, 'stmts': [], 'broken': False}
            refs.append(ref)
        return refs

    def make_vfs(self, main_location, depth, scope_g):
        """Files reachable from main_location; returns the list of reference spellings usable in it."""
        from . import resolve as R
        r = self.rng
        refs = []
        n = r.randint(1, self.k['fanout'])
        for _ in range(n):
            if len(self.files) >= 12:
                break
            ix = len(self.files)
            style = r.random()
            fname = f'f{ix}.bare'
            if r.random() < self.k.get('odd_names', 0.0):
                fname = r.choice([f"it's{ix}.bare", f'back\\slash{ix}.bare', f"q'\\{ix}.bare", f'sp ace{ix}.bare'])
            if style < 0.35:
                ref = fname
            elif style < 0.55:
                ref = f'lib{ix % 3}/{fname}'
            elif style < 0.65:
                ref = f'../{fname}'
            elif style < 0.72:
                ref = f'./{fname}'
            elif style < 0.82:
                ref = f'/abs/d{ix % 2}/{fname}'
            elif style < 0.86:
                # absolute URLs whose scheme is not followed by '//' are absolute URLs all the same
                ref = r.choice([f'file:/srv/d{ix % 2}/{fname}', f'mem:{fname}', f'urn:lib:{fname}'])
            elif style < 0.92:
                ref = f'http://other/x{ix % 2}/{fname}'
            else:
                ref = (r.choice([fname, fname, f'pkg{ix % 2}/{fname}', f'pkg0/sub/{fname}']),)   # system include
            if isinstance(ref, tuple):
                prefix = self.k.get('system_prefix')
                location = R.ref_resolve(prefix, ref[0]) if prefix is not None else \
                    (R.ref_resolve(main_location, ref[0]) if main_location is not None else ref[0])
            else:
                location = R.ref_resolve(main_location, ref) if main_location is not None else ref
            norm = R.normalise(location)
            if norm in self.files:
                if self.files[norm] is not None:     # completed files only: the include graph stays a DAG
                    refs.append(ref)
                continue
            self.files[norm] = None   # reserve
            sub_scope = dict(scope_g)
            if self.k.get('func_includes'):
                sub_scope['no_calls'] = True       # files reachable from function bodies must not call back
            sub_scope['includes'] = self.make_vfs(location, depth + 1, scope_g) \
                if depth + 1 < self.k['include_depth'] and r.random() < 0.6 else []
            if self.k.get('fetch_probes'):
                sub_scope['data'] = self.make_data(location)
                if not sub_scope['includes']:
                    sub_scope['includes'] = ['missing.bare'] if r.random() < 0.1 else ['__probe_only__']
            stmts = []
            if r.random() < 0.3 and not self.k.get('func_includes'):
                fn_name = f'fnI{ix}'
                self.funcs.append(fn_name)
                stmts.append(self.function(fn_name, sub_scope))
            stmts.extend(self.block(sub_scope, 1, r.randint(1, 5)))
            if not any('expr' in st for st in stmts):
                stmts.insert(0, self.tick())
            if self.k.get('self_include') and r.random() < self.k['self_include'] and not isinstance(ref, tuple) \
                    and not R.is_url(ref) and not ref.startswith('/'):
                # a file that includes ITSELF while an environment answer says so (terminates: finitely many answers)
                site = f's{self.n_site}'
                self.n_site += 1
                self.used_hosts.add('hostNext')
                self.answers[site] = {'seq': [1] * r.randint(1, 3), 'then': 0}
                lab = self.label()
                pos = r.randint(0, len(stmts))
                own = ref.rsplit('/', 1)[-1]
                stmts[pos:pos] = [ir.st_jump(lab, unop('!', call('hostNext', s(site)))), ir.st_include(own), ir.st_label(lab)]
            if self.funcs and r.random() < self.k.get('p_guard', 0.2) and not self.k.get('func_includes'):
                # the include-guard idiom: a return at the top that an environment answer takes or not, and BEHIND it a
                # function statement re-binding a name the includer already uses (a taken return ends the script: the
                # name keeps its old binding)
                site = f's{self.n_site}'
                self.n_site += 1
                self.used_hosts.add('hostNext')
                self.answers[site] = {'seq': [r.choice([0, 1])], 'then': r.choice([0, 1])}
                lab = self.label()
                guard = [ir.st_jump(lab, unop('!', call('hostNext', s(site)))), ir.st_return(), ir.st_label(lab)]
                redef = ir.st_function(r.choice(self.funcs), [], [self.tick(), ir.st_return(num(70 + ix))])
                stmts = guard + stmts + [redef]
            self.files[norm] = self.file_entry(stmts, broken=r.random() < self.k.get('p_broken', 0.0))
            refs.append(ref)
        if r.random() < 0.15:
            refs.append('missing.bare')
        return refs

    @staticmethod
    def file_entry(stmts, broken=False):
        entry = {'stmts': stmts, 'broken': broken}
        fixup_file(entry)
        return entry

    # -- whole plan --------------------------------------------------------------------------
    def gen_plan(self):
        r = self.rng
        k = self.k
        self.budget = k['max_top'] * 4
        plan = {'debug': r.random() < 0.3, 'has_log': r.random() < 0.9, 'has_fetch': True}
        scope = {'nums': ['n0', 'n1', 'n2'], 'gens': ['g0', 'g1'], 'labels': ['G0', 'G1', 'G2'], 'includes': []}
        self.funcs = [f'fn{c}' for c in 'ABC'[:r.randint(1, k['n_funcs'])]] if k['n_funcs'] else []
        self.order = list(self.funcs)
        main_location = None
        if k['include']:
            base_kind = r.random()
            if base_kind < 0.45:
                main_location = r.choice(PATH_BASES)
                plan['url_kind'] = ['file', main_location]
            elif base_kind < 0.85:
                main_location = r.choice(URL_BASES)
                plan['url_kind'] = ['file', main_location]
            elif base_kind < 0.93:
                plan['url_kind'] = 'identity'
            else:
                plan['url_kind'] = None
            c = r.random()
            if c < 0.3:
                # (an empty prefix and prefixes without a final separator are configured prefixes like any other:
                # the reference is resolved against them, not against the including file)
                plan['system_prefix'] = r.choice(['/sys/inc/', 'http://sys.example/inc/', 'sysrel/', '/sys/inc/', 'sysrel/',
                                                  '', 'plainprefix', 'pre/fix'])
            self.k['system_prefix'] = plan.get('system_prefix')
            scope['includes'] = self.make_vfs(main_location, 0, scope)
            if k.get('fetch_probes'):
                scope['data'] = self.make_data(main_location)
            if r.random() < 0.1:
                plan['has_fetch'] = False
        stmts = []
        own_funcs = [f for f in self.funcs if not f.startswith('fnI')]
        defs = [self.function(name, scope) for name in own_funcs]
        # functions are bound when the function statement executes: mostly first, sometimes late
        late = [d for d in defs if r.random() < 0.15]
        stmts.extend(d for d in defs if d not in late)
        body = self.block(scope, 0, r.randint(3, k['max_top']))
        for d in late:
            body.insert(r.randint(0, len(body)), d)
        # redefinition: the same name bound to a second body later (both bodies draw raw labels from the same
        # small pool), with calls before and after — a function statement binds the name when it EXECUTES
        if own_funcs and r.random() < k.get('p_redefine', 0.25):
            name = r.choice(own_funcs)
            pos = r.randint(0, len(body))
            nargs = r.randint(0, 2)
            body.insert(pos, ir.st_expr(call(name, *[num(r.randint(0, 3)) for _ in range(nargs)]), r.choice(scope['nums'])))
            saved = self.k['raw_jumps']
            self.k['raw_jumps'] = max(saved, 0.6)
            self.budget += 10
            body.insert(pos + 1, self.function(name, scope))
            self.k['raw_jumps'] = saved
            body.insert(r.randint(pos + 2, len(body)), ir.st_expr(call(name, *[num(r.randint(0, 3)) for _ in range(nargs)]),
                                                                   r.choice(scope['nums'])))
        # a partial made on one side of an include boundary and called on the other
        if k['include'] and self.files and own_funcs and r.random() < 0.3:
            target = r.choice(own_funcs)
            done_files = [kf for kf, v in self.files.items() if v is not None and not v.get('data')]
            if done_files and scope['includes']:
                fkey = r.choice(done_files)
                entry = self.files[fkey]
                if r.random() < 0.5:
                    entry['stmts'].append(ir.st_expr(call('systemPartial', var(target), num(1)), 'g0'))
                    body.append(ir.st_expr(call('g0', num(2)), r.choice(scope['nums'])))
                else:
                    body.insert(0, ir.st_expr(call('systemPartial', var(target), num(1)), 'g1'))
                    entry['stmts'].append(ir.st_expr(call('g1', num(3)), 'n2'))
                fixup_file(entry)
        # a function library (a file of function statements only) included, one of its names re-bound by the includer,
        # and the same text included AGAIN — by the same reference, by another spelling of it, or as a copy at another
        # location: every include statement executes its file, so the library's binding is back afterwards; calls
        # before, between and after tell which binding is in force
        if k['include'] and k.get('p_funclib') and r.random() < k['p_funclib']:
            import copy
            from . import resolve as R
            lname = f'fnL{r.randint(0, 1)}'
            lib_stmts = [ir.st_function(lname, [], [self.tick(), ir.st_return(num(81))])]
            if r.random() < 0.5:
                lib_stmts.append(ir.st_function('fnL2', ['a0'], [ir.st_return(binop('+', var('a0'), num(1)))]))
            refs_l = []
            for ref in r.sample(['flib.bare', './flib.bare', 'lib0/../flib.bare', 'copy/flib.bare', 'lib1/flib.bare'], 2):
                location = R.ref_resolve(main_location, ref) if main_location is not None else ref
                norm = R.normalise(location)
                if self.files.get(norm) is None:
                    self.files[norm] = self.file_entry([copy.deepcopy(st) for st in lib_stmts])
                refs_l.append(ref)
            if r.random() < 0.5:
                refs_l[1] = refs_l[0]
            rebind = ir.st_function(lname, [], [self.tick(), ir.st_return(num(82))]) if r.random() < 0.7 else \
                ir.st_function(lname, ['a0'], [ir.st_return(var('a0'))])

            def use():
                self.n_obs += 1
                return ir.st_expr(call('hostObserve', s(f'o{self.n_obs}'), call(lname)))
            self.used_hosts.add('hostObserve')
            seq = [ir.st_include(refs_l[0]), use(), rebind, use(), ir.st_include(refs_l[1]), use()]
            if r.random() < 0.3:
                seq.insert(3, self.tick())
            pos = r.randint(0, len(body))
            for st in seq:
                pos = r.randint(pos, len(body))
                body.insert(pos, st)
                pos += 1
        stmts.extend(body)
        if r.random() < 0.5:
            stmts.append(ir.st_return(self.any_expr(scope)))
        plan['model'] = stmts
        plan['globals'] = {
            'rows0': [{'ra': 1, 'rb': 2}, {'ra': 0, 'rb': 5}, {'ra': 3, 'rb': 0}][:r.randint(0, 3)],
            'rows1': [{'ra': r.randint(0, 3)} for _ in range(r.randint(0, 2))],
            'vars0': {'vx': 1},
            'vars1': {},
        }
        plan['answers'] = self.answers
        plan['exprs'] = self.exprs
        plan['files'] = {k_: v for k_, v in self.files.items() if v is not None}
        for entry in plan['files'].values():
            fixup_file(entry)
        # fault plan: host failures placed on calls that exist
        from .env import EXC_NAMES
        faults = []
        hosts = sorted(self.used_hosts)
        for _ in range(k['host_faults']):
            if not hosts:
                break
            f = {'fn': r.choice(hosts), 'occ': r.randint(1, 6), 'exc': r.choice(EXC_NAMES)}
            if f['exc'] == 'ValueArgsError':
                f['rv'] = r.choice([None, -1, 0, False, 'rv'])
            faults.append(f)
        plan['faults'] = faults
        ffaults = []
        for _ in range(k['fetch_faults']):
            kind = r.choice(['raise', 'none', 'torn', 'torn'])
            f = {'occ': r.randint(1, 5), 'kind': kind}
            if kind == 'raise':
                from .env import FETCH_EXC_NAMES
                f['exc'] = r.choice(FETCH_EXC_NAMES)
            if kind == 'torn':
                f['keep'] = r.randint(0, 4)
            ffaults.append(f)
        plan['fetch_faults'] = ffaults
        return plan


def fixup_file(entry):
    """(Re)derive text, torn-read cut points and the reference's parsed view from entry['stmts']."""
    if entry.get('data'):
        entry['cuts'] = [(0, 0)]
        entry['ir'] = None
        return
    stmts = entry['stmts']
    lines = ir.render_statements(stmts)
    text = '\n'.join(lines) + '\n'
    # cut points for torn reads: after whole top-level statements only
    cuts = [(0, 0)]
    n_lines = 0
    for ix, st in enumerate(stmts):
        n_lines += len(ir.render_statements([st]))
        nxt = stmts[ix + 1] if ix + 1 < len(stmts) else None
        if 'include' in st and nxt is not None and 'include' in nxt:
            continue    # adjacent include lines merge into one statement: not a clean cut
        cuts.append((n_lines, ix + 1))
    entry['cuts'] = cuts
    if entry.get('broken'):
        entry['text'] = text + 'x = (1 +\n'
        entry['ir'] = None
    else:
        entry['text'] = text
        entry['ir'] = merge_includes(stmts)


def merge_includes(stmts):
    """The parser merges adjacent include lines into one statement; the reference's view of a
    rendered file must do the same (statement counting)."""
    out = []
    for st in stmts:
        if 'include' in st and out and 'include' in out[-1]:
            out[-1] = {'include': {'includes': out[-1]['include']['includes'] + st['include']['includes']}}
        elif 'function' in st:
            f = dict(st['function'])
            f['statements'] = merge_includes(f['statements'])
            out.append({'function': f})
        else:
            out.append(st)
    return out


def fixup_plan(plan):
    for entry in (plan.get('files') or {}).values():
        fixup_file(entry)
    return plan
