"""RefResolve — include location resolution as C17 states it, plus the normaliser under which
locations are compared (so a refactoring that normalises '.'/'..'/'//' is not flagged)."""
import re

_R_URL = re.compile(r'^[a-z]+:')


def is_url(text):
    return _R_URL.match(text) is not None


def ref_resolve(containing_file, ref):
    """Resolve `ref` against the file that contains the statement."""
    if is_url(ref):
        return ref                                  # absolute URL: unchanged
    if ref.startswith('/'):
        return ref                                  # absolute path: unchanged
    cut = containing_file.rfind('/')
    if cut < 0:
        return ref                                  # containing file has no directory part
    return containing_file[:cut + 1] + ref


def normalise(location):
    """Collapse '/./', 'dir/../' and duplicate slashes (not the '//' after a URL scheme)."""
    scheme = ''
    rest = location
    m = re.match(r'^([a-z]+:)(//)?', location)
    if m:
        scheme = m.group(0)
        rest = location[len(scheme):]
        host, slash, path = rest.partition('/')
        if m.group(2):
            scheme += host
            rest = slash + path
    absolute = rest.startswith('/')
    out = []
    for part in rest.split('/'):
        if part in ('', '.'):
            continue
        if part == '..':
            if out and out[-1] != '..':
                out.pop()
            elif not absolute:
                out.append('..')
            continue
        out.append(part)
    text = '/'.join(out)
    if absolute:
        text = '/' + text
    return scheme + text


def normalise_all_quoted(text):
    """The set of normalised forms of every double-quoted substring of `text` (error messages)."""
    return {normalise(q) for q in re.findall(r'"([^"\n]*)"', text)}
