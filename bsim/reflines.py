"""RefLines — an independent reader of LOGICAL lines (written from the language description:
blank and '#' comment lines are skipped everywhere, a line ending in a backslash continues on the
next non-comment line, parts are joined with single spaces). Used to say which line an error must
name, which lines a model must account for, and which blocks are open at end of input."""
import re

_SPLIT = re.compile(r'\r?\n')
_COMMENT = re.compile(r'^\s*(?:#.*)?$')
_CONT = re.compile(r'\\\s*$')


class Logical:
    __slots__ = ('number', 'phys', 'text', 'dangling')

    def __init__(self, number, phys, text, dangling):
        self.number = number      # 1-based physical line number of the first part
        self.phys = phys          # 0-based indexes of the physical lines that make it up
        self.text = text          # joined text
        self.dangling = dangling  # ended by end of input while still continuing


def physical_lines(text_or_chunks):
    if isinstance(text_or_chunks, str):
        return _SPLIT.split(text_or_chunks)
    out = []
    for chunk in text_or_chunks:
        out.extend(_SPLIT.split(chunk))
    return out


def logical_lines(text_or_chunks):
    phys = physical_lines(text_or_chunks)
    out = []
    parts = []
    idxs = []
    for ix, line in enumerate(phys):
        if _COMMENT.match(line):
            continue
        stripped = _CONT.sub('', line)
        continued = stripped != line
        if not parts:
            parts.append(stripped.rstrip() if continued else line)
        else:
            parts.append(stripped.strip())
        idxs.append(ix)
        if not continued:
            text = ' '.join(parts) if len(parts) > 1 else parts[0]
            out.append(Logical(idxs[0] + 1, idxs, text, False))
            parts, idxs = [], []
    if parts:
        out.append(Logical(idxs[0] + 1, idxs, ' '.join(parts), True))
    return phys, out


def squash(text):
    """Comparison form of a line's text: whitespace runs collapsed (the joining of continuation
    parts is not fixed by the property beyond 'the logical line')."""
    return ' '.join(text.split())


_OPEN = re.compile(r'^\s*(?:async\s+)?(function|if|while|for)\b.*:\s*$')
_CLOSE = re.compile(r'^\s*(endfunction|endif|endwhile|endfor)\s*$')


def open_blocks(logicals):
    """Keyword balance at end of input: openers minus closers (per kind)."""
    bal = {'function': 0, 'if': 0, 'while': 0, 'for': 0}
    for lg in logicals:
        m = _OPEN.match(lg.text)
        if m:
            bal[m.group(1)] += 1
            continue
        m = _CLOSE.match(lg.text)
        if m:
            bal[m.group(1)[3:]] -= 1
    return bal


_OPEN_STRICT = re.compile(r'^\s*(?:(?:async\s+)?(function)\s+[A-Za-z_]\w*\s*\(.*\)|(if|while|for)\s+\S.*?)\s*:\s*$')
_ASSIGN = re.compile(r'^\s*[A-Za-z_]\w*\s*=')


def missing_end_expectation(logicals):
    """Which block header a 'Missing end<kind> statement' error must name, given that the parser accepted every line
    before the point where it gave up: the innermost block still open when an `endfunction` arrives while a block
    opened inside that function is open, else the innermost open if/while/for at end of input, else the open
    function. Returns (kind, logical number) or None when nothing is open. The scan follows the keyword lines only
    (written from the language description, not from the parser)."""
    stack = []
    for lg in logicals:
        if lg.dangling or _ASSIGN.match(lg.text):
            continue
        m = _OPEN_STRICT.match(lg.text)
        if m:
            stack.append((m.group(1) or m.group(2), lg.number))
            continue
        m = _CLOSE.match(lg.text)
        if m:
            kind = m.group(1)[3:]
            if kind == 'function' and stack and stack[-1][0] != 'function':
                return stack[-1]
            if stack and stack[-1][0] == kind:
                stack.pop()
            else:
                return None      # the parser reports an unmatched closer here, not a missing one
    blocks = [e for e in stack if e[0] != 'function']
    if blocks:
        return blocks[-1]
    return stack[-1] if stack else None
