"""RefLines — an independent reader of LOGICAL lines (written from the language description:
blank and '#' comment lines are skipped everywhere, a line ending in a backslash continues on the
next non-comment line, parts are joined with single spaces). Used to say which line an error must
name, which lines a model must account for, and which blocks are open at end of input."""
import re

_SPLIT = re.compile(r'\r?\n')
_COMMENT = re.compile(r'^\s*(?:#.*)?$')
_CONT = re.compile(r'\\\s*$')


class Logical:
    __slots__ = ('number', 'phys', 'text', 'dangling')

    def __init__(self, number, phys, text, dangling):
        self.number = number      # 1-based physical line number of the first part
        self.phys = phys          # 0-based indexes of the physical lines that make it up
        self.text = text          # joined text
        self.dangling = dangling  # ended by end of input while still continuing


def physical_lines(text_or_chunks):
    if isinstance(text_or_chunks, str):
        return _SPLIT.split(text_or_chunks)
    out = []
    for chunk in text_or_chunks:
        out.extend(_SPLIT.split(chunk))
    return out


def logical_lines(text_or_chunks):
    phys = physical_lines(text_or_chunks)
    out = []
    parts = []
    idxs = []
    for ix, line in enumerate(phys):
        if _COMMENT.match(line):
            continue
        stripped = _CONT.sub('', line)
        continued = stripped != line
        if not parts:
            parts.append(stripped.rstrip() if continued else line)
        else:
            parts.append(stripped.strip())
        idxs.append(ix)
        if not continued:
            text = ' '.join(parts) if len(parts) > 1 else parts[0]
            out.append(Logical(idxs[0] + 1, idxs, text, False))
            parts, idxs = [], []
    if parts:
        out.append(Logical(idxs[0] + 1, idxs, ' '.join(parts), True))
    return phys, out


def squash(text):
    """Comparison form of a line's text: whitespace runs collapsed (the joining of continuation
    parts is not fixed by the property beyond 'the logical line')."""
    return ' '.join(text.split())


_OPEN = re.compile(r'^\s*(?:async\s+)?(function|if|while|for)\b.*:\s*$')
_CLOSE = re.compile(r'^\s*(endfunction|endif|endwhile|endfor)\s*$')


def open_blocks(logicals):
    """Keyword balance at end of input: openers minus closers (per kind)."""
    bal = {'function': 0, 'if': 0, 'while': 0, 'for': 0}
    for lg in logicals:
        m = _OPEN.match(lg.text)
        if m:
            bal[m.group(1)] += 1
            continue
        m = _CLOSE.match(lg.text)
        if m:
            bal[m.group(1)[3:]] -= 1
    return bal
