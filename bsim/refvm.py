"""RefVM — the executable reference model of the statement semantics (C08), the counting rule
(C09), the containment rule (C05) and include execution (C17), for the workload fragment only.

Written from the property statements and the public documentation, not from runtime.py:
  * statements run in order; every statement start counts, wherever it runs;
  * jump: to the FIRST label of that name in the SAME statement list, else 'Unknown jump label';
  * return ends the current script/function; a function statement binds a global at execution;
  * a failure inside a function call makes THAT call null (or its failure value); runtime errors
    propagate;
  * include: resolve against the containing file, fetch once, run to completion in global scope.
"""
from . import resolve as _resolve


class RefRuntimeError(Exception):
    pass


class RefParserError(Exception):
    def __init__(self, location, in_call=False):
        super().__init__(location)
        self.location = location
        self.in_call = in_call      # raised while a function call expression was being evaluated


class HostFailure(Exception):
    """A party behind a seam failed (host function, library argument validation...)."""

    def __init__(self, exc_name, message='', return_value=None):
        super().__init__(message)
        self.exc_name = exc_name
        self.message = message
        self.return_value = return_value


class RefCap(BaseException):
    """RefVM statement cap reached (program treated as non-terminating within the cap)."""


# -- value helpers ---------------------------------------------------------------------------------
def truthy(v):
    if v is None:
        return False
    if isinstance(v, str):
        return v != ''
    if isinstance(v, bool):
        return v
    if isinstance(v, (int, float)):
        return v != 0
    if isinstance(v, list):
        return len(v) != 0
    return True


def is_num(v):
    return isinstance(v, (int, float)) and not isinstance(v, bool)


def ref_string(v):
    if v is None:
        return 'null'
    if isinstance(v, str):
        return v
    if isinstance(v, bool):
        return 'true' if v else 'false'
    if is_num(v):
        if v == int(v):
            return str(int(v))
        return repr(float(v))
    if callable(v):
        return '<function>'
    raise HostFailure('RefUnsupported', f'ref_string of {type(v).__name__}')


def ref_compare(a, b):
    """Only null, numbers, strings, booleans (same type) are compared by the workloads."""
    if a is None:
        return 0 if b is None else -1
    if b is None:
        return 1
    if is_num(a) and is_num(b) or isinstance(a, str) and isinstance(b, str) or \
            isinstance(a, bool) and isinstance(b, bool):
        return -1 if a < b else (0 if a == b else 1)
    if isinstance(a, list) and isinstance(b, list):
        for x, y in zip(a, b):
            c = ref_compare(x, y)
            if c:
                return c
        return -1 if len(a) < len(b) else (0 if len(a) == len(b) else 1)
    if isinstance(a, dict) and isinstance(b, dict):
        ia, ib = sorted(a.items()), sorted(b.items())
        for (ka, va), (kb, vb) in zip(ia, ib):
            if ka != kb:
                return -1 if ka < kb else 1
            c = ref_compare(va, vb)
            if c:
                return c
        return -1 if len(ia) < len(ib) else (0 if len(ia) == len(ib) else 1)
    ta, tb = ref_type(a), ref_type(b)
    return -1 if ta < tb else (0 if ta == tb else 1)


def ref_type(v):
    if v is None:
        return 'null'
    if isinstance(v, str):
        return 'string'
    if isinstance(v, bool):
        return 'boolean'
    if is_num(v):
        return 'number'
    if isinstance(v, dict):
        return 'object'
    if isinstance(v, list):
        return 'array'
    if callable(v):
        return 'function'
    return 'unknown'


def is_index(v):
    return is_num(v) and v == int(v) and v >= 0


# -- function values -------------------------------------------------------------------------------
class ScriptFn:
    def __init__(self, fdef):
        self.fdef = fdef

    def __call__(self, args, vm):
        fdef = self.fdef
        locs = {}
        names = fdef.get('args')
        if names is not None:
            last = len(names) - 1 if fdef.get('lastArgArray') else None
            for ix, name in enumerate(names):
                if ix < len(args):
                    locs[name] = args[ix:] if ix == last else args[ix]
                else:
                    locs[name] = [] if ix == last else None
        return vm.run_list(fdef['statements'], locs)


class HostFn:
    def __init__(self, name):
        self.name = name

    def __call__(self, args, vm):
        return vm.env.host(self.name, args, lambda f, a: vm.invoke(f, a), vm)


class LibFn:
    def __init__(self, name, impl):
        self.name = name
        self.impl = impl

    def __call__(self, args, vm):
        return self.impl(vm, args)


class PartialFn:
    def __init__(self, fn, args):
        self.fn = fn
        self.args = args

    def __call__(self, args, vm):
        return vm.invoke(self.fn, [*self.args, *args])


# -- library subset --------------------------------------------------------------------------------
def _fail(rv=None, msg='args'):
    raise HostFailure('ValueArgsError', msg, rv)


def _lib_array_new(vm, args):
    return list(args)


def _lib_array_push(vm, args):
    if not args or not isinstance(args[0], list):
        _fail()
    args[0].extend(args[1:])
    return args[0]


def _lib_array_get(vm, args):
    if len(args) != 2 or not isinstance(args[0], list) or not is_index(args[1]) or args[1] >= len(args[0]):
        _fail()
    return args[0][int(args[1])]


def _lib_array_length(vm, args):
    if len(args) != 1 or not isinstance(args[0], list):
        _fail(0)
    return len(args[0])


def _lib_array_index_of(vm, args, last=False):
    if len(args) < 2 or len(args) > 3 or not isinstance(args[0], list):
        _fail(-1)
    arr, val = args[0], args[1]
    if len(args) == 3 and args[2] is not None:
        start = args[2]
        if not is_index(start):
            _fail(-1)
    elif len(args) == 3 and not last:
        _fail(-1)
    else:
        start = (len(arr) - 1) if last else 0
    if start >= len(arr):
        _fail(-1)
    rng = range(int(start), -1, -1) if last else range(int(start), len(arr))
    for ix in rng:
        if callable(val):
            if truthy(vm.invoke(val, [arr[ix]])):
                return ix
        elif ref_compare(arr[ix], val) == 0:
            return ix
    return -1


def _lib_system_partial(vm, args):
    if len(args) < 2 or not callable(args[0]):
        _fail()
    return PartialFn(args[0], list(args[1:]))


def _lib_global_get(vm, args):
    if not args or len(args) > 2 or not isinstance(args[0], str):
        _fail()
    default = args[1] if len(args) > 1 else None
    return vm.globals.get(args[0], default)


def _lib_global_set(vm, args):
    if not args or len(args) > 2 or not isinstance(args[0], str):
        _fail()
    value = args[1] if len(args) > 1 else None
    vm.globals[args[0]] = value
    return value


def _lib_system_log(vm, args):
    if len(args) > 1:
        _fail()
    if vm.has_log:
        vm.env.log(ref_string(args[0] if args else None), vm)
    return None


def _lib_system_fetch(vm, args):
    if len(args) != 1 or not isinstance(args[0], str):
        raise HostFailure('RefUnsupported', 'systemFetch form')
    url = vm.resolve(args[0], False)
    text = vm.fetch(url)
    if text is None and vm.debug and vm.has_log:
        vm.env.log(f'BareScript: Function "systemFetch" failed for resource "{url}"', vm)
    return text


def _data_eval_setup(vm, variables):
    if variables is None:
        return None
    if not isinstance(variables, dict):
        _fail()
    saved = vm.globals
    vm.globals = {**saved, **variables}
    return saved


def _lib_data_filter(vm, args):
    if len(args) < 2 or len(args) > 3 or not isinstance(args[0], list) or not isinstance(args[1], str):
        _fail()
    expr = vm.expr_table[args[1]]
    variables = args[2] if len(args) > 2 else None
    saved = _data_eval_setup(vm, variables)
    try:
        out = []
        for row in args[0]:
            if truthy(vm.ev(expr, row)):
                out.append(row)
        return out
    finally:
        if saved is not None:
            vm.globals = saved


def _lib_data_join(vm, args):
    """dataJoin(left, right, joinExpr[, rightExpr, isLeftJoin, variables]) as data.join_data does it: the right
    expression once per right row (in order), then the left expression once per left row."""
    import json as _json
    from .core import canon as _canon
    if len(args) < 3 or len(args) > 6 or not isinstance(args[0], list) or not isinstance(args[1], list) or \
            not isinstance(args[2], str):
        _fail()
    right_text = args[3] if len(args) > 3 else None
    is_left = args[4] if len(args) > 4 else False
    variables = args[5] if len(args) > 5 else None
    if (right_text is not None and not isinstance(right_text, str)) or not isinstance(is_left, bool) or \
            any(not isinstance(r, dict) for r in args[0] + args[1]):
        _fail()
    left_expr = vm.expr_table[args[2]]
    right_expr = vm.expr_table[right_text] if right_text is not None else left_expr
    left_names, right_raw, right_names = {}, {}, {}
    for row in args[0]:
        for name in row:
            left_names.setdefault(name, name)
    for row in args[1]:
        for name in row:
            right_raw.setdefault(name, name)
    for name in right_raw:
        if name not in left_names:
            right_names[name] = name
        else:
            ix = 2
            while f'{name}{ix}' in left_names or f'{name}{ix}' in right_names or f'{name}{ix}' in right_raw:
                ix += 1
            right_names[name] = f'{name}{ix}'
    saved = _data_eval_setup(vm, variables)

    def key(v):
        return _json.dumps(_canon(v), sort_keys=True)
    try:
        buckets = {}
        for rrow in args[1]:
            buckets.setdefault(key(vm.ev(right_expr, rrow)), []).append(rrow)
        data = []
        for lrow in args[0]:
            k = key(vm.ev(left_expr, lrow))
            if k in buckets:
                for rrow in buckets[k]:
                    joined = dict(lrow)
                    for name, value in rrow.items():
                        if name not in right_names:
                            _fail()      # a callback added a field after the name map was built: KeyError, contained
                        joined[right_names[name]] = value
                    data.append(joined)
            elif not is_left:
                data.append(dict(lrow))
        return data
    finally:
        if saved is not None:
            vm.globals = saved


def _lib_data_calc(vm, args):
    if len(args) < 3 or len(args) > 4 or not isinstance(args[0], list) or not isinstance(args[1], str) \
            or not isinstance(args[2], str):
        _fail()
    expr = vm.expr_table[args[2]]
    variables = args[3] if len(args) > 3 else None
    saved = _data_eval_setup(vm, variables)
    try:
        for row in args[0]:
            row[args[1]] = vm.ev(expr, row)
        return args[0]
    finally:
        if saved is not None:
            vm.globals = saved


def _lib_array_sort(vm, args):
    """arraySort(array[, compareFn]): CPython's list.sort on both sides, so the sequence of comparator
    calls is the same; a comparator answer that is not a number fails the whole call."""
    import functools
    if not args or len(args) > 2 or not isinstance(args[0], list):
        _fail()
    arr = args[0]
    fn = args[1] if len(args) > 1 else None
    if fn is None:
        arr.sort(key=functools.cmp_to_key(ref_compare))
        return arr
    if not callable(fn):
        _fail()

    def cmp(a, b):
        r = vm.invoke(fn, [a, b])
        if not is_num(r) and not isinstance(r, bool):
            raise HostFailure('TypeError', 'comparator answer')
        return r
    arr.sort(key=functools.cmp_to_key(cmp))
    return arr


def _lib_object_new(vm, args):
    out = {}
    for ix in range(0, len(args), 2):
        if not isinstance(args[ix], str):
            _fail()
        out[args[ix]] = args[ix + 1] if ix + 1 < len(args) else None
    return out


LIB = {
    'objectNew': _lib_object_new,
    'arraySort': _lib_array_sort,
    'arrayNew': _lib_array_new,
    'arrayPush': _lib_array_push,
    'arrayGet': _lib_array_get,
    'arrayLength': _lib_array_length,
    'arrayIndexOf': _lib_array_index_of,
    'arrayLastIndexOf': lambda vm, args: _lib_array_index_of(vm, args, True),
    'systemPartial': _lib_system_partial,
    'systemGlobalGet': _lib_global_get,
    'systemGlobalSet': _lib_global_set,
    'systemLog': _lib_system_log,
    'systemFetch': _lib_system_fetch,
    'dataFilter': _lib_data_filter,
    'dataCalculatedField': _lib_data_calc,
    'dataJoin': _lib_data_join,
}


HOST_NAMES = ('hostTick', 'hostNext', 'hostObserve', 'hostCall', 'hostFail', 'hostReenter')


class RefVM:
    def __init__(self, env, limit=0, debug=False, has_log=True, has_fetch=True, files=None,
                 base=None, system_prefix=None, expr_table=None, cap=0):
        self.env = env
        self.limit = limit
        self.debug = debug
        self.has_log = has_log
        self.has_fetch = has_fetch
        self.files = files or {}
        self.base = base                   # None (no urlFn) | ('identity',) | ('file', location)
        self.system_prefix = system_prefix
        self.expr_table = expr_table or {}
        self.cap = cap
        self.count = 0
        self.globals = None
        self.depth = 0

    # -- entry points --------------------------------------------------------------------------
    def execute(self, statements, globals_):
        self.globals = globals_
        for name, impl in LIB.items():
            if name not in globals_:
                globals_[name] = LibFn(name, impl)
        self.count = 0
        return self.run_list(statements, None)

    def resolve(self, url, system):
        if system and self.system_prefix is not None:
            return _resolve.ref_resolve(self.system_prefix, url)
        if self.base is None or self.base[0] == 'identity':
            return url
        return _resolve.ref_resolve(self.base[1], url)

    def fetch(self, location):
        """A location that cannot be fetched (no fetch function, it raises, it answers nothing)."""
        if not self.has_fetch:
            return None
        try:
            return self.env.fetch(location, self)
        except HostFailure as hf:
            if hf.exc_name == 'RefUnsupported':
                raise
            return None

    # -- statements ----------------------------------------------------------------------------
    def run_list(self, statements, locs):
        ix = 0
        n = len(statements)
        while ix < n:
            st = statements[ix]
            self.count += 1
            if self.limit > 0 and self.count > self.limit:
                raise RefRuntimeError(f'Exceeded maximum script statements ({self.limit})')
            if self.cap and self.count > self.cap:
                raise RefCap()
            (key, body), = st.items()
            if key == 'expr':
                value = self.ev(body['expr'], locs)
                name = body.get('name')
                if name is not None:
                    if locs is not None:
                        locs[name] = value
                    else:
                        self.globals[name] = value
            elif key == 'jump':
                if 'expr' not in body or truthy(self.ev(body['expr'], locs)):
                    target = -1
                    for jx, other in enumerate(statements):
                        if other.get('label') == body['label']:
                            target = jx
                            break
                    if target < 0:
                        raise RefRuntimeError(f'Unknown jump label "{body["label"]}"')
                    ix = target
            elif key == 'return':
                if 'expr' in body:
                    return self.ev(body['expr'], locs)
                return None
            elif key == 'function':
                self.globals[body['name']] = ScriptFn(body)
            elif key == 'include':
                for inc in body['includes']:
                    self.include(inc)
            elif key == 'label':
                pass
            else:
                raise AssertionError(key)
            ix += 1
        return None

    def include(self, inc):
        location = self.resolve(inc['url'], bool(inc.get('system')))
        text = self.fetch(location)
        if text is None:
            raise RefRuntimeError(f'Include of "{location}" failed')
        parsed = self.env.parsed_for(location, text)
        if parsed is None:
            raise RefParserError(location, self.depth > 0)
        saved = self.base
        self.base = ('file', location)
        try:
            self.run_list(parsed, None)
        finally:
            self.base = saved

    # -- expressions ---------------------------------------------------------------------------
    def invoke(self, fn, args):
        if not callable(fn):
            raise HostFailure('TypeError', 'not callable')
        return fn(args, self)

    def ev(self, e, locs):
        (key, body), = e.items()
        if key == 'number':
            return body
        if key == 'string':
            return body
        if key == 'variable':
            if body == 'null':
                return None
            if body == 'true':
                return True
            if body == 'false':
                return False
            if locs is not None and body in locs:
                return locs[body]
            return self.globals.get(body)
        if key == 'group':
            return self.ev(body, locs)
        if key == 'unary':
            value = self.ev(body['expr'], locs)
            if body['op'] == '!':
                return not truthy(value)
            if is_num(value):
                return -value
            return None
        if key == 'binary':
            op = body['op']
            left = self.ev(body['left'], locs)
            if op == '&&':
                return left if not truthy(left) else self.ev(body['right'], locs)
            if op == '||':
                return left if truthy(left) else self.ev(body['right'], locs)
            right = self.ev(body['right'], locs)
            if op in ('==', '!=', '<', '<=', '>', '>='):
                c = ref_compare(left, right)
                return {'==': c == 0, '!=': c != 0, '<': c < 0, '<=': c <= 0, '>': c > 0, '>=': c >= 0}[op]
            if op == '+' and isinstance(left, str) and isinstance(right, str):
                return left + right
            if op in ('+', '-', '*') and is_num(left) and is_num(right):
                return left + right if op == '+' else (left - right if op == '-' else left * right)
            if op in ('+', '-', '*') and (left is None or right is None) and \
                    (left is None or is_num(left)) and (right is None or is_num(right)):
                return None
            raise HostFailure('RefUnsupported', f'operator {op} on {ref_type(left)},{ref_type(right)}')
        if key == 'function':
            name = body['name']
            if name == 'if':
                # the special form: only the chosen branch is evaluated, in the caller's scope
                a = body.get('args', ())
                cond = self.ev(a[0], locs) if len(a) >= 1 else False
                chosen = (a[1] if len(a) >= 2 else None) if truthy(cond) else (a[2] if len(a) >= 3 else None)
                return self.ev(chosen, locs) if chosen is not None else None
            args = [self.ev(a, locs) for a in body['args']] if 'args' in body else None
            if locs is not None and name in locs:
                fn = locs[name]
            else:
                fn = self.globals.get(name)
            if fn is None:
                raise RefRuntimeError(f'Undefined function "{name}"')
            self.depth += 1
            try:
                if args is None:
                    raise HostFailure('TypeError', 'no args')
                return self.invoke(fn, args)
            except HostFailure as hf:
                if hf.exc_name == 'RefUnsupported':
                    raise
                if self.debug and self.has_log:
                    self.env.log(f'BareScript: Function "{name}" failed with error: {hf.message}', self)
                return hf.return_value
            finally:
                self.depth -= 1
        raise AssertionError(key)
