"""Self-tests of the machinery itself (DESIGN.md §3.7):

  ./check selftest determinism [N]   same seeds -> same event-log digests across interpreters, hash seeds,
                                     process counts and execution orders
  ./check selftest sensitivity [-j]  every patch in mutants/ (and seeded/*/patch.diff) applied to a scratch
                                     copy of /repo must make its intended check exit 1 with a VIOLATION line
  ./check selftest clean [K]         every check on the unchanged tree under K different VERIF_SEEDs exits 0
"""
import concurrent.futures
import glob
import json
import os
import shutil
import subprocess
import sys
import tempfile
import time

from . import boot

VERIF = boot.VERIF
PROPS = ['C05', 'C06', 'C08', 'C09', 'C10', 'C15', 'C16', 'C17']
CHECK = os.path.join(VERIF, 'check')


def digests_main(argv):
    """./check digests <ID> <first> <count> [reverse] -> JSON {seed: digest} on stdout"""
    import importlib
    from .core import Stats
    from . import driver
    prop, first, count = argv[0], int(argv[1]), int(argv[2])
    rev = len(argv) > 3 and argv[3] == 'reverse'
    mod = importlib.import_module('bsim.props.' + prop.lower())
    if hasattr(mod, 'worker_init'):
        mod.worker_init()
    from . import interloper
    interloper.calibrate()
    seeds = list(range(first, first + count))
    if rev:
        seeds.reverse()
    out = {}
    for seed in seeds:
        plan = mod.gen(seed, 'quick', None)
        if getattr(mod, 'ISOLATE', False):
            res = driver.run_isolated(mod, plan, Stats())
        else:
            res = mod.run(plan, Stats())
        out[str(seed)] = res.digest
    print('DIGESTS ' + json.dumps(out))
    return 0


def _digest_proc(prop, first, count, hashseed, reverse=False):
    env = dict(os.environ)
    env['PYTHONHASHSEED'] = str(hashseed)
    cmd = [sys.executable, CHECK, 'digests', prop, str(first), str(count)] + (['reverse'] if reverse else [])
    proc = subprocess.run(cmd, capture_output=True, text=True, env=env, timeout=1800, check=False)
    for line in proc.stdout.splitlines():
        if line.startswith('DIGESTS '):
            return json.loads(line[8:])
    raise RuntimeError(f'digest process failed: {proc.stderr[-500:]}')


def determinism(argv):
    n = int(argv[0]) if argv else 400
    ok = True
    report = {}
    for prop in PROPS:
        t0 = time.time()
        base = 777000
        # A: one process, hash seed 0, forward
        a = _digest_proc(prop, base, n, 0)
        # B: 16 processes, hash seed 1, slices
        b = {}
        with concurrent.futures.ThreadPoolExecutor(16) as ex:
            step = max(1, n // 16)
            futs = [ex.submit(_digest_proc, prop, base + i, min(step, n - i), 1) for i in range(0, n, step)]
            for f in futs:
                b.update(f.result())
        # C: 4 processes, another hash seed, reversed order inside each process
        c = {}
        with concurrent.futures.ThreadPoolExecutor(4) as ex:
            step = max(1, n // 4)
            futs = [ex.submit(_digest_proc, prop, base + i, min(step, n - i), 12345, True) for i in range(0, n, step)]
            for f in futs:
                c.update(f.result())
        bad = [s for s in a if a[s] != b.get(s) or a[s] != c.get(s)]
        report[prop] = {'seeds': n, 'configurations': 3, 'mismatches': len(bad), 'wall_s': round(time.time() - t0, 1)}
        print(f'determinism {prop}: {n} seeds x 3 configurations (1/16/4 processes, PYTHONHASHSEED 0/1/12345, '
              f'forward/reversed): {len(bad)} mismatches' + (f' e.g. seeds {bad[:5]}' if bad else ''))
        ok = ok and not bad
    os.makedirs(os.path.join(VERIF, 'selftest'), exist_ok=True)
    with open(os.path.join(VERIF, 'selftest', 'determinism.json'), 'w') as fh:
        json.dump(report, fh, indent=1)
    return 0 if ok else 1


def _scratch(patch):
    d = tempfile.mkdtemp(prefix='bsim-scratch-')
    os.makedirs(os.path.join(d, 'repo'))
    shutil.copytree(os.path.join(boot.REPO, 'src'), os.path.join(d, 'repo', 'src'),
                    ignore=shutil.ignore_patterns('__pycache__'))
    proc = subprocess.run(['git', 'apply', '--unsafe-paths', '-p1', patch], cwd=os.path.join(d, 'repo'),
                          capture_output=True, text=True, check=False)
    if proc.returncode != 0:
        shutil.rmtree(d, ignore_errors=True)
        raise RuntimeError(f'patch does not apply: {patch}: {proc.stderr[-300:]}')
    return d


def _run_mutant(patch, prop, others):
    d = _scratch(patch)
    try:
        env = dict(os.environ)
        env['BSIM_REPO'] = os.path.join(d, 'repo')
        env['VERIF_WORKERS'] = env.get('SELFTEST_WORKERS', '16')
        res = {}
        for p in [prop] + others:
            proc = subprocess.run([sys.executable, CHECK, p, '--tier', 'quick'], capture_output=True, text=True, env=env,
                                  timeout=1800, check=False)
            viol = [ln for ln in proc.stdout.splitlines() if ln.startswith('VIOLATION ')]
            harness = [ln for ln in proc.stdout.splitlines() if ln.startswith('HARNESS-ERROR')]
            rules = sorted({ln.split()[1] for ln in proc.stdout.splitlines() if ln.startswith('violation ')})
            res[p] = {'exit': proc.returncode, 'violations': len(viol), 'harness': harness[:2], 'rules': rules[:6]}
        return res
    finally:
        shutil.rmtree(d, ignore_errors=True)


def sensitivity(argv):
    cross = '--cross' in argv
    only = [a for a in argv if not a.startswith('-')]
    patches = sorted(glob.glob(os.path.join(VERIF, 'mutants', '*.patch')))
    for meta in sorted(glob.glob(os.path.join(VERIF, 'seeded', '*', 'meta.json'))):
        patches.append(os.path.join(os.path.dirname(meta), 'patch.diff'))
    report = {}
    ok = True
    for patch in patches:
        name = os.path.basename(patch)[:-6] if patch.endswith('.patch') else 'seeded-' + os.path.basename(os.path.dirname(patch))
        if patch.endswith('.patch'):
            prop = name[:3].upper()
        else:
            with open(os.path.join(os.path.dirname(patch), 'meta.json')) as fh:
                prop = json.load(fh)['property']
        if only and not any(o in name or o == prop for o in only):
            continue
        if not patch.endswith('.patch'):
            with open(os.path.join(os.path.dirname(patch), 'meta.json')) as fh:
                judged = json.load(fh).get('judged_outside_the_statement')
            if judged:
                # kept for the record: a change an independent author proposed that I judge not to violate the
                # property as stated (reason in its meta.json and in DESIGN.md §11.5); the check is silent by design
                print(f'sensitivity {name}: not run — judged outside the statement ({judged[:90]})')
                report[name] = {'property': prop, 'caught': None, 'judged_outside_the_statement': judged}
                continue
        others = [p for p in PROPS if p != prop] if cross else []
        try:
            res = _run_mutant(patch, prop, others)
        except Exception as exc:  # pylint: disable=broad-except
            print(f'sensitivity {name}: ERROR {exc}')
            report[name] = {'error': str(exc)}
            ok = False
            continue
        caught = res[prop]['exit'] == 1 and res[prop]['violations'] > 0
        noisy = [p for p in others if res[p]['exit'] != 0]
        report[name] = {'property': prop, 'caught': caught, 'rules': res[prop]['rules'],
                        'other_checks_that_also_fired': noisy}
        print(f'sensitivity {name}: intended check {prop} -> exit {res[prop]["exit"]}, '
              f'{res[prop]["violations"]} VIOLATION lines {res[prop]["rules"]}' +
              (f'; also fired: {noisy}' if noisy else '') + ('' if caught else '   <-- MISSED'))
        ok = ok and caught
    os.makedirs(os.path.join(VERIF, 'selftest'), exist_ok=True)
    path = os.path.join(VERIF, 'selftest', 'sensitivity.json')
    old = {}
    if os.path.exists(path) and only:
        with open(path) as fh:
            old = json.load(fh)
    old.update(report)
    with open(path, 'w') as fh:
        json.dump(old, fh, indent=1, sort_keys=True)
    return 0 if ok else 1


def clean(argv):
    k = int(argv[0]) if argv else 5
    ok = True
    for prop in PROPS:
        for s in range(101, 101 + k):
            env = dict(os.environ)
            env['VERIF_SEED'] = str(s)
            env['BSIM_REPO'] = boot.REPO     # evidence goes to *-scratch: committed evidence stays the VERIF_SEED=1 run
            proc = subprocess.run([sys.executable, CHECK, prop, '--tier', 'quick'], capture_output=True, text=True, env=env,
                                  timeout=1800, check=False)
            last = proc.stdout.strip().splitlines()[-1] if proc.stdout.strip() else ''
            print(f'clean {prop} VERIF_SEED={s}: exit {proc.returncode} {last[:160]}')
            ok = ok and proc.returncode == 0
    return 0 if ok else 1


def main(argv):
    if not argv:
        print(__doc__)
        return 3
    if argv[0] == 'determinism':
        return determinism(argv[1:])
    if argv[0] == 'sensitivity':
        return sensitivity(argv[1:])
    if argv[0] == 'clean':
        return clean(argv[1:])
    print(__doc__)
    return 3
