"""Adapters that run the REAL runtime (execute_script) and the reference (RefVM) on one client plan
and return comparable outcomes."""
import copy
import functools

from .core import SimOptions, canon, SimCrash, SimWatchdog, SimKill
from .env import Env, make_exception, SimBaseError
from .refvm import RefVM, RefRuntimeError, RefParserError, HostFailure, RefCap, HOST_NAMES, LibFn
from . import resolve as _resolve


class Outcome:
    __slots__ = ('result', 'error', 'events', 'globals', 'count', 'starts', 'default_seen', 'fired', 'raw_urls',
                 'extra')

    def __init__(self):
        self.result = None
        self.error = None        # None | ('rt', msg) | ('parse', text) | ('host', cls, msg) | ('crash',) ...
        self.events = []
        self.globals = None
        self.count = None
        self.starts = 0
        self.default_seen = []
        self.fired = None
        self.raw_urls = []
        self.extra = {}

    def summary(self):
        """Comparable / digestible view. Failure-report lines keep only the function name: their message
        text may embed object addresses (repr of a function) and is not part of any property."""
        err = self.error
        if err is not None and err[0] == 'host':
            err = err[:2]
        return {'result': self.result, 'error': err, 'events': norm_events(self.events), 'globals': self.globals}


def build_globals(spec):
    """Initial globals from a JSON spec (deep copy so runs never share containers)."""
    return copy.deepcopy(spec) if spec else {}


def user_globals_canon(globals_, is_library):
    out = {}
    for key, value in globals_.items():
        if is_library(key, value):
            continue
        out[key] = canon(value)
    return dict(sorted(out.items()))


def run_real(plan, limit='absent', sim_options=True, hook=None, env=None, on_event=None, model=None,
             globals_=None, max_starts=None, reuse_options=None, options_patch=None):
    """Execute plan['model'] with the real runtime under the simulated world.

    limit: 'absent' (no maxStatements key) or an int.
    hook(options, value): extra statement-start hook (crash / yield), may raise BaseException.
    max_starts: watchdog — raise SimWatchdog when more statement starts are seen (run not aborted).
    """
    from bare_script import execute_script, BareScriptRuntimeError, BareScriptParserError
    from bare_script.options import url_file_relative
    from bare_script.library import SCRIPT_FUNCTIONS

    out = Outcome()
    if env is None:
        env = Env(plan, 'real')
    env.on_event = on_event
    # the embedder's callbacks reach the simulated world through a cell, so that one options object (with the very
    # same fetchFn / logFn / urlFn objects in it) can be used for a second run against a fresh world
    cell = reuse_options.env_cell if reuse_options is not None else [None]
    cell[0] = env

    def host_adapter(name):
        def host_fn(args, options):
            try:
                return cell[0].host(name, args, lambda f, a: f(a, options), options)
            except HostFailure as hf:
                raise make_exception(hf.exc_name, hf.message, hf.return_value) from None
        return host_fn

    def fetch_fn(request):
        try:
            return cell[0].fetch(request['url'] if isinstance(request, dict) else request)
        except HostFailure as hf:
            raise make_exception(hf.exc_name, hf.message) from None

    def log_fn(text):
        cell[0].log(text)

    if globals_ is None:
        globals_ = build_globals(plan.get('globals'))
    for name in HOST_NAMES:
        globals_[name] = host_adapter(name)

    if reuse_options is not None:
        # an embedder re-using one options object for a second execution: it passes the same dict again, with fresh
        # globals and (only if it differs) another limit; whatever the runtime left behind or changed in the dict
        # (statementCount, a replaced urlFn, …) stays
        options = reuse_options
        options['globals'] = globals_
        if limit != 'absent' and dict.get(options, 'maxStatements', 'absent') != limit:
            options['maxStatements'] = limit
    else:
        options = SimOptions() if sim_options else {}
        options['globals'] = globals_
        if plan.get('debug'):
            options['debug'] = True
        if plan.get('has_log', True):
            options['logFn'] = log_fn
        if plan.get('has_fetch', True):
            options['fetchFn'] = fetch_fn
        url_kind = plan.get('url_kind')
        if url_kind == 'identity':
            options['urlFn'] = lambda url: url
        elif url_kind is not None:
            options['urlFn'] = functools.partial(url_file_relative, url_kind[1])
        if plan.get('system_prefix') is not None:
            options['systemPrefix'] = plan['system_prefix']
        if limit != 'absent':
            options['maxStatements'] = limit
        if sim_options:
            options.env_cell = cell
        # unusual but supported configurations: option keys given as None (= absent) or left out altogether
        for key, value in (options_patch or {}).items():
            if value == '<absent>':
                if key in options:
                    dict.__delitem__(options, key)
            else:
                options[key] = value

    starts = [0]
    if sim_options:
        options.default_seen = out.default_seen

        last = [0]
        writes = [0]

        def sim_hook(opts, value):
            # a statement start is a +1 step of the logical clock; writing the same value again
            # (count carried back from an include) or resetting it is not
            is_start = value == last[0] + 1
            last[0] = value
            if is_start:
                starts[0] += 1
                if max_starts is not None and starts[0] > max_starts:
                    raise SimWatchdog(f'{starts[0]} statement starts')
            writes[0] += 1
            if max_starts is not None and writes[0] > 3 * max_starts + 100:
                raise SimWatchdog(f'{writes[0]} clock writes')
            if hook is not None:
                hook(opts, value, starts[0])
                last[0] = dict.__getitem__(opts, 'statementCount')   # the hook may jump the clock
        options.sim_hook = sim_hook

    if model is None:
        model = {'statements': copy.deepcopy(plan['model'])}
    try:
        out.result = canon(execute_script(model, options))
    except BareScriptRuntimeError as exc:
        out.error = ('rt', str(exc))
    except BareScriptParserError as exc:
        out.error = ('parse', str(exc))
    except (SimCrash, SimKill):
        raise
    except SimWatchdog as exc:
        out.error = ('watchdog', str(exc))
    except Exception as exc:  # pylint: disable=broad-except
        out.error = ('host', type(exc).__name__, str(exc)[:200])
    except SimBaseError as exc:
        out.error = ('host', 'SimBaseError', str(exc)[:200])
    out.events = env.events
    out.count = options.get('statementCount')
    out.starts = starts[0]
    out.fired = env.fired
    out.raw_urls = env.raw_urls
    out.extra['interference'] = env.interference
    out.globals = user_globals_canon(
        globals_, lambda k, v: k in HOST_NAMES or (k in SCRIPT_FUNCTIONS and v is SCRIPT_FUNCTIONS[k]))
    out.extra['options'] = options
    return out


def run_ref(plan, limit=0, cap=0, env=None, model=None, globals_=None):
    """Execute the same plan with RefVM. Returns Outcome; error ('unsupported', why) when the
    reference cannot decide (never a violation) and ('cap',) when the cap was reached."""
    out = Outcome()
    if env is None:
        env = Env(plan, 'ref')
    url_kind = plan.get('url_kind')
    base = None
    if url_kind == 'identity':
        base = ('identity',)
    elif url_kind is not None:
        base = ('file', url_kind[1])
    vm = RefVM(env, limit=limit, debug=bool(plan.get('debug')), has_log=plan.get('has_log', True),
               has_fetch=plan.get('has_fetch', True), files=plan.get('files'), base=base,
               system_prefix=plan.get('system_prefix'), expr_table=plan.get('exprs'), cap=cap)
    if globals_ is None:
        globals_ = build_globals(plan.get('globals'))
    from .refvm import HostFn
    for name in HOST_NAMES:
        globals_[name] = HostFn(name)
    statements = model['statements'] if model is not None else plan['model']
    try:
        out.result = canon(vm.execute(statements, globals_))
    except RefRuntimeError as exc:
        out.error = ('rt', str(exc))
    except RefParserError as exc:
        out.error = ('parse', exc.location)
        out.extra['parse_in_call'] = exc.in_call
    except RefCap:
        out.error = ('cap',)
    except HostFailure as hf:
        out.error = ('unsupported', hf.message)
    except RecursionError:
        out.error = ('unsupported', 'recursion')
    out.events = env.events
    out.count = vm.count
    out.fired = env.fired
    out.raw_urls = env.raw_urls
    out.globals = user_globals_canon(
        vm.globals if vm.globals is not None else globals_,
        lambda k, v: k in HOST_NAMES or isinstance(v, LibFn))
    return out


def norm_events(events):
    """Projection under which real and reference histories are compared: debug failure reports
    keep only the function name (message texts are not part of any property)."""
    out = []
    for ev in events:
        if ev[0] == 'log' and isinstance(ev[1], str) and ev[1].startswith('BareScript: Include "'):
            continue   # lint output for included files: C18's business
        elif ev[0] == 'log' and isinstance(ev[1], str) and ev[1].startswith('BareScript:     '):
            continue
        elif ev[0] == 'log' and isinstance(ev[1], str) and ev[1].startswith('BareScript:') and '"' in ev[1]:
            # a failure report: the wording is not part of any property, the function it names is
            out.append(('report', ev[1].split('"', 2)[1]))
        elif ev[0] == 'fail':
            out.append(ev[:4])
        else:
            out.append(ev)
    return out


def compare_outcomes(real, ref):
    """First difference between a real and a reference outcome, or None."""
    re_, fe = norm_events(real.events), norm_events(ref.events)
    for ix, (a, b) in enumerate(zip(re_, fe)):
        if a != b:
            return ('event', ix, a, b)
    if len(re_) != len(fe):
        ix = min(len(re_), len(fe))
        return ('event-count', ix, re_[ix] if ix < len(re_) else None, fe[ix] if ix < len(fe) else None)
    rerr, ferr = real.error, ref.error
    if (rerr is None) != (ferr is None):
        return ('error', rerr, ferr)
    if rerr is not None:
        if rerr[0] != ferr[0]:
            return ('error', rerr, ferr)
        if rerr[0] == 'rt' and rerr[1] != ferr[1]:
            if not (rerr[1].startswith('Include of "') and ferr[1].startswith('Include of "') and
                    _resolve.normalise(rerr[1][12:].rsplit('"', 1)[0]) ==
                    _resolve.normalise(ferr[1][12:].rsplit('"', 1)[0])):
                return ('error', rerr, ferr)
        if rerr[0] == 'parse':
            loc = ferr[1]
            if _resolve.normalise(loc) not in _resolve.normalise_all_quoted(rerr[1]):
                return ('error', rerr, ferr)
    elif real.result != ref.result:
        return ('result', real.result, ref.result)
    if real.globals != ref.globals:
        keys = sorted(set(real.globals) | set(ref.globals))
        for k in keys:
            if real.globals.get(k, '<absent>') != ref.globals.get(k, '<absent>'):
                return ('globals', k, real.globals.get(k, '<absent>'), ref.globals.get(k, '<absent>'))
    return None


def interloper_probe(plan, stats, prop, baseline, run_fn):
    """Fault kind `interloper`: the same run once more with nested, independent uses of the library (bsim.interloper)
    injected into its host / fetch / log callbacks. The run must equal `baseline` (the same run without them) and
    every nested use must behave as it does on its own. Returns a list of violations."""
    from .core import Violation
    spec = plan.get('interloper_spec')
    if not spec or baseline is None or (baseline.error is not None and baseline.error[0] == 'watchdog'):
        return []
    p = dict(plan)
    p['interlopers'] = spec
    out = run_fn(p)
    stats.c['evaluations'] += 1
    fired = {k: v for k, v in (out.fired or {}).items() if k.startswith('interloper:')}
    stats.faults.update(fired)
    if not fired:
        return []
    stats.probes['nested_independent_use_inside_a_callback'] += 1
    bad = out.extra.get('interference')
    if bad:
        return [Violation(prop, 'reentrant', 'nested-independent-use-disturbed:' + bad[0]['kind'], bad[0])]
    a, b = out.summary(), baseline.summary()
    if a != b or out.count != baseline.count:
        what = next((k for k in ('events', 'error', 'result', 'globals') if a[k] != b[k]), 'statementCount')
        return [Violation(prop, 'reentrant', 'run-disturbed-by-nested-independent-use:' + what,
                          {'interlopers': spec, 'fired': fired, 'baseline_error': baseline.error, 'error': out.error,
                           'baseline_count': baseline.count, 'count': out.count})]
    return []
