"""C06 — the parser is total and its diagnostics point at the offending source.

Storage-fault reading of the property: a script text that was CUT SHORT or CORRUPTED on its way to
the parser (short read, torn file, one flipped token) must be detected or fully accounted for, never
half-accepted; and every error these faults provoke must carry the right position.

Per run: one valid generated program, laid out with continuation breaks / comments so that logical
and physical lines differ, delivered by a chunked reader, with exactly one fault per case:
  reader_eof_line        EOF after EVERY physical line (enumeration)
  reader_eof_byte        EOF at seeded byte offsets (biased: after a backslash, inside a header, inside a string)
  dangling_continuation  last delivered line ends in 1-8 backslashes
  closer_delete          one endif/endwhile/endfor/endfunction lost
  token_delete / token_swap / token_corrupt   at EVERY column of a short line, seeded columns of long ones
Every outcome is re-derived with k in {1,3,10} prepended lines and another start_line_number.
"""
import copy
import re as _re

from .. import gen_source, reflines
from ..core import Stats, Violation, stream, digest_of, SimWatchdog
from ..driver import RunResult
from . import c10 as _c10

PROP = 'C06'
LEVEL = 'fault_enumeration'
HANG_LIMIT_S = 180.0     # one run enumerates hundreds of faulty deliveries of a program
RULE = ('per generated program (nesting <= 5, depth probe <= 50, lines padded to 0-400 chars) every line-boundary '
        'truncation and, for chosen lines, every column of token_corrupt/token_delete is one evaluation, plus seeded '
        'byte truncations, dangling continuations, closer deletions and token swaps; non-trivial = the fault changed '
        'the outcome (error, or a model different from the intact parse); distinct by digest(fault kind, statement '
        'kind at the fault, outcome class, error text, column bucket)')
COMPONENTS = {
    'real': ['bare_script.parser.parse_script / parse_expression', 'BareScriptParserError formatting (elision, caret)'],
    'stub': ['reader generator delivering the (faulty) text in chunks'],
}
ASSUMPTIONS = [
    'RefLines (independent logical-line reader) decides which line an error must name and which blocks are open',
    "'@' is legal only inside string literals, bracket variables and comments",
    'line texts are compared modulo whitespace runs (the joining of continuation parts is not fixed by the property)',
    "a 'Missing end<kind> statement' error is held to the header of the innermost open block only when RefLines' keyword "
    'scan names a block of the same kind (probes missing_end_header_checked / missing_end_scan_disagrees_on_kind)',
]


def budget(tier):
    if tier == 'thorough':
        return {'seeds': 14000, 'chunk': 20, 'wall_cap': 1200, 'extra': {'big': True}}
    return {'seeds': 1600, 'chunk': 20, 'wall_cap': 240, 'extra': None}


def gen(seed, tier, extra=None):
    rng = stream(seed, 'plan')
    big = bool((extra or {}).get('big'))
    c = rng.random()
    if c < 0.08:
        g = gen_source.SourceGen(rng, long_lines=0.0)
        lines = g.deep_program(rng.choice([6, 12, 25, 50]))
    else:
        g = gen_source.SourceGen(rng, max_depth=rng.choice([2, 3, 5]), size=rng.choice([3, 6, 10, 16] if not big else [6, 12, 24, 40]),
                                 long_lines=rng.choice([0.0, 0.1, 0.3]))
        lines = g.program()
    plan = {'seed': seed, 'lines': lines, 'start': rng.choice([1, 1, 7, 1000]),
            'layout': {'layout_seed': rng.randrange(1 << 30), 'p_insert': rng.choice([0.0, 0.2, 0.4]),
                       'p_break': rng.choice([0.0, 0.0, 0.3, 0.7]), 'n_chunks': rng.randint(1, 6)},
            'fault_seed': rng.randrange(1 << 30)}
    return plan


# --------------------------------------------------------------------------------------------
# parsing through the reader seam
# --------------------------------------------------------------------------------------------
def parse_text(text, start, n_chunks=1, rng=None, interlope=None, interference=None):
    from bare_script import parse_script, BareScriptParserError
    if interlope is not None:
        # the reader itself uses the library (a nested, independent parse) between two chunks it hands out
        from .. import interloper
        phys = text.split('\n')
        cut = min(len(phys), max(0, interlope[0]))
        chunks = ['\n'.join(phys[:cut]), '\n'.join(phys[cut:])] if 0 < cut < len(phys) else [text]

        def reader():
            for i, ch in enumerate(chunks):
                if i == len(chunks) - 1:
                    bad = interloper.run(interlope[1])
                    if bad is not None:
                        interference.append(bad)
                yield ch
        source = reader()
    elif n_chunks > 1 and rng is not None:
        phys = text.split('\n')
        cuts = sorted(rng.sample(range(1, len(phys)), min(n_chunks - 1, len(phys) - 1))) if len(phys) > 1 else []
        chunks = []
        prev = 0
        for cut in cuts + [len(phys)]:
            seg = phys[prev:cut]
            prev = cut
            # chunks are cut at line boundaries and do NOT keep their final newline: a kept newline adds an
            # empty line per chunk, which shifts every later line number (observation O5 in DESIGN.md; line
            # numbers under chunked delivery are not part of C06's statement, models are C10's business)
            chunks.append('\n'.join(seg))
        source = (ch for ch in chunks)
    else:
        source = text
    try:
        return _guarded(parse_script, source, start), None, None
    except BareScriptParserError as exc:
        return None, exc, None
    except SimWatchdog:
        _HANGS[0] += 1
        return None, None, ParserDoesNotReturn(f'no result after {_limit():.0f} s')
    except Exception as exc:  # pylint: disable=broad-except
        return None, None, exc


class ParserDoesNotReturn(Exception):
    """A single parse_script call that is still running after PARSE_LIMIT_S seconds (texts here are a few hundred
    characters per line at most; a parse takes milliseconds)."""


PARSE_LIMIT_S = 20.0
_HANGS = [0]


def _limit():
    # once this process has seen three parses that did not return, later ones are given up on sooner
    return PARSE_LIMIT_S if _HANGS[0] < 3 else 3.0


def _on_alarm(signum, frame):
    raise SimWatchdog('parse_script does not return')


def _guarded(fn, *args):
    """Run fn under an interval timer (main thread only): the regular-expression engine polls for signals, so a
    pattern that backtracks without end is interrupted — the thread-level hang guard cannot reach into C code."""
    import signal
    import threading
    if threading.current_thread() is not threading.main_thread():
        return fn(*args)
    old = signal.signal(signal.SIGALRM, _on_alarm)
    signal.setitimer(signal.ITIMER_REAL, _limit())
    try:
        return fn(*args)
    finally:
        signal.setitimer(signal.ITIMER_REAL, 0)
        signal.signal(signal.SIGALRM, old)


def stmt_kind(text):
    t = text.strip()
    for kw in ('async function', 'function', 'endfunction', 'if', 'elif', 'else', 'endif', 'while', 'endwhile', 'for',
               'endfor', 'break', 'continue', 'return', 'jumpif', 'jump', 'include'):
        if t == kw or t.startswith(kw + ' ') or t.startswith(kw + ':') or t.startswith(kw + '('):
            return kw.replace('async function', 'function')
    if t.endswith(':') and ' ' not in t:
        return 'label'
    if _re.match(r'^[A-Za-z_]\w*\s*=', t):
        return 'assignment'
    return 'expression'


# --------------------------------------------------------------------------------------------
# the rules on one delivered text
# --------------------------------------------------------------------------------------------
def check_delivered(text, start, fault, stats, viols, light=False, chunk_rng=None, n_chunks=1):
    """Evaluate all C06 rules on one delivered text. Returns an outcome class string."""
    model, err, other = parse_text(text, start, n_chunks, chunk_rng)
    stats.c['evaluations'] += 1
    phys, logicals = reflines.logical_lines(text)
    fk = fault['kind']
    if other is not None:
        viols.append(Violation(PROP, 'total', f'parser-raised:{type(other).__name__}',
                               {'fault': fault, 'error': str(other)[:200], 'text': text[-300:]}))
        return 'other'
    if model is not None:
        bal = reflines.open_blocks(logicals)
        for kind, n in bal.items():
            if n > 0:
                viols.append(Violation(PROP, 'open', f'open-{kind}-at-end-of-input-accepted',
                                       {'fault': fault, 'balance': bal, 'tail': text[-200:]}))
                return 'accepted-open'
        if not light:
            from bare_script import parse_script, BareScriptParserError
            for lg in logicals:
                keep = [p for i, p in enumerate(phys) if i not in lg.phys]
                try:
                    m2 = parse_script('\n'.join(keep), start)
                except BareScriptParserError:
                    continue
                except Exception:  # pylint: disable=broad-except
                    continue
                stats.c['account_parses'] += 1
                if m2 == model:
                    sig = 'dangling-continuation-dropped' if lg.dangling else f'line-not-accounted:{stmt_kind(lg.text)}'
                    viols.append(Violation(PROP, 'account', sig, {'fault': fault, 'line_number': lg.number, 'line': lg.text[:120]}))
                    return 'accepted-dropped'
        return 'accepted'
    # an error: position rules
    ln = err.line_number
    col = err.column_number
    line = err.line
    where_kind = None
    lg = None
    if not isinstance(ln, int) or isinstance(ln, bool):
        # find the statement kind for the signature
        for cand in logicals:
            if isinstance(line, str) and line.strip() and line.strip() in cand.text:
                where_kind = stmt_kind(cand.text)
                break
        viols.append(Violation(PROP, 'position', f'line-number-missing:{where_kind}',
                               {'fault': fault, 'error': err.error, 'line': str(line)[:120], 'column': col}))
        return 'error-nopos'
    rel = ln - (start - 1)
    lg = next((c for c in logicals if c.number == rel), None)
    if lg is None:
        viols.append(Violation(PROP, 'position', 'line-number-is-not-a-logical-line',
                               {'fault': fault, 'line_number': ln, 'start': start, 'error': err.error,
                                'logical_numbers': [c.number for c in logicals][:30]}))
        return 'error-badline'
    if not isinstance(line, str) or reflines.squash(line) != reflines.squash(lg.text):
        viols.append(Violation(PROP, 'position', f'line-text-differs:{stmt_kind(lg.text)}',
                               {'fault': fault, 'reported': str(line)[:160], 'logical_line': lg.text[:160], 'line_number': ln}))
        return 'error-badtext'
    if not isinstance(col, int) or not 1 <= col <= len(line) + 1:
        viols.append(Violation(PROP, 'position', f'column-out-of-range:{stmt_kind(lg.text)}',
                               {'fault': fault, 'column': col, 'line_length': len(line)}))
        return 'error-badcol'
    # where (a block left open): "Missing end<kind> statement" must name the header of the block that IS open —
    # the innermost one — not another block of the text. Judged only when RefLines' keyword scan agrees on the kind.
    m_end = _re.match(r'^Missing end(function|if|while|for) statement$', err.error or '')
    if m_end:
        exp = reflines.missing_end_expectation(logicals)
        if exp is not None and exp[0] == m_end.group(1):
            stats.probes['missing_end_header_checked'] += 1
            if exp[1] != rel:
                viols.append(Violation(PROP, 'where', f'missing-end-names-another-block:{m_end.group(1)}',
                                       {'fault': fault, 'blamed': rel, 'open_block_header': exp[1], 'error': err.error,
                                        'line': line[:120]}))
                return 'error-where'
        else:
            stats.probes['missing_end_scan_disagrees_on_kind'] += 1
    # where (token_corrupt outside literals)
    if fk == 'token_corrupt' and fault.get('outside') and fault.get('logical_number') is not None:
        if rel != fault['logical_number']:
            viols.append(Violation(PROP, 'where', f'error-blames-another-line:{stmt_kind(lg.text)}',
                                   {'fault': fault, 'blamed': rel, 'error': err.error, 'line': line[:120]}))
            return 'error-where'
    # column: an error inside the expression part of a statement must sit at (offset of the expression in
    # the line) + (the column the expression parser itself reports for that expression text)
    span = fault.get('expr_span')
    if span is not None:
        from bare_script import parse_expression, BareScriptParserError
        e_text = fault['corrupted_line'][span[0]:span[1]]
        try:
            parse_expression(e_text)
            e0 = None
        except BareScriptParserError as exc0:
            e0 = exc0
        if e0 is not None:
            stats.probes['column_checked_against_expression_offset'] += 1
            if err.error != e0.error or col != span[0] + e0.column_number:
                viols.append(Violation(PROP, 'column', f'column-not-at-expression-offset:{fault.get("stmt")}',
                                       {'fault': {k: v for k, v in fault.items() if k != 'corrupted_line'},
                                        'line': line[:160], 'reported': [err.error, col],
                                        'expected': [e0.error, span[0] + e0.column_number]}))
                return 'error-column'
    # caret
    bad = check_caret(err, ln)
    if bad is not None:
        viols.append(Violation(PROP, 'caret', bad[0], {'fault': fault, 'why': bad[1], 'message': str(err)[-400:],
                                                       'column': col, 'line_length': len(line)}))
        return 'error-caret'
    if len(line) > 120:
        stats.probes['error_on_elided_long_line'] += 1
    if light:
        return 'error'
    # shift
    rng = stream(fault.get('seed', 0), 'shift')
    for k in (1, 3, 10):
        kind = rng.choice(['comment', 'blank', 'stmt', 'mixed'])
        pre = []
        for i in range(k):
            kk = kind if kind != 'mixed' else rng.choice(['comment', 'blank', 'stmt'])
            pre.append({'comment': '# prepended', 'blank': '', 'stmt': f'pre{i} = {i}'}[kk])
        m2, e2, o2 = parse_text('\n'.join(pre) + '\n' + text, start)
        stats.c['evaluations'] += 1
        if e2 is None or o2 is not None:
            viols.append(Violation(PROP, 'shift', 'prepending-lines-changes-the-outcome',
                                   {'fault': fault, 'k': k, 'kind': kind, 'before': err.error}))
            return 'error-shift'
        if e2.line_number != ln + k or e2.error != err.error or e2.line != line or e2.column_number != col or \
                _renumber(str(e2), ln + k) != _renumber(str(err), ln):
            viols.append(Violation(PROP, 'shift', f'prepended-lines-do-not-shift-by-k:{stmt_kind(lg.text)}',
                                   {'fault': fault, 'k': k, 'kind': kind, 'line_number_before': ln, 'after': e2.line_number,
                                    'error_before': err.error, 'error_after': e2.error, 'col': [col, e2.column_number]}))
            return 'error-shift'
    s2 = 1 if start != 1 else 37
    m3, e3, o3 = parse_text(text, s2)
    stats.c['evaluations'] += 1
    if e3 is None or e3.line_number != ln - start + s2 or e3.error != err.error or e3.column_number != col:
        viols.append(Violation(PROP, 'shift', 'start_line_number-offset-wrong',
                               {'fault': fault, 'start': [start, s2], 'line_numbers': [ln, getattr(e3, 'line_number', None)]}))
        return 'error-start'
    return 'error'


def _renumber(message, number):
    """The formatted message with the line number masked in its header line(s) (not in the source line shown)."""
    parts = message.split('\n')
    head = [_re.sub(r'(?<!\d)%d(?!\d)' % number, 'N', h) for h in parts[:-3]]
    return '\n'.join(head + parts[-3:])


def check_caret(err, ln):
    msg = str(err)
    parts = msg.split('\n')
    if len(parts) < 4 or parts[-1] != '':
        return ('message-format', 'expected header, line, caret line')
    header, shown, caret = parts[-4], parts[-3], parts[-2]
    # the wording of the header is not fixed by the property; it must carry the error text and the line number
    if err.error not in header or not _re.search(r'(?<!\d)%d(?!\d)' % ln, header):
        return ('message-format', f'header {header!r} lacks the error text or the line number')
    if not caret.endswith('^') or caret.strip(' ') != '^':
        return ('message-format', f'caret line {caret!r}')
    n = len(caret) - 1
    line, col = err.line, err.column_number
    if len(line) <= 120:
        if shown != line:
            return ('line-shown-differs', shown[:80])
        if n != col - 1:
            return ('caret-not-under-column', f'caret at {n + 1}, column {col}')
        return None
    has_pre = shown.startswith('... ')
    has_suf = shown.endswith(' ...')
    core = shown[4 if has_pre else 0: len(shown) - (4 if has_suf else 0)]
    if len(core) > 120 or not core:
        return ('elision-length', f'core length {len(core)}')
    offs = []
    pos = line.find(core)
    while pos >= 0:
        offs.append(pos)
        pos = line.find(core, pos + 1)
    if not offs:
        return ('elided-text-not-from-line', core[:60])
    for off in offs:
        # the property fixes where the caret sits, not whether an ellipsis is printed on a side where
        # nothing was cut (the pinned formatter prints '... ' when the window starts exactly at column 1)
        if n - (4 if has_pre else 0) + off == col - 1 and (has_pre or off == 0) and \
                (has_suf or off + len(core) == len(line)):
            return None
    return ('caret-not-under-column-elided', f'caret {n}, column {col}, offsets {offs[:3]}, pre {has_pre}, suf {has_suf}')


# --------------------------------------------------------------------------------------------
# run: enumerate the faults of one program
# --------------------------------------------------------------------------------------------
def run(plan, stats):
    viols = []
    lines = plan['lines']
    start = plan.get('start', 1)
    lay = plan['layout']
    phys_e, lstat = _c10.lay_out(lines, {'layout_seed': lay['layout_seed'], 'p_insert': lay['p_insert'],
                                         'p_break': lay['p_break'], 'no_cr_trail': True})
    phys = [t for t, _e in phys_e]
    intact = '\n'.join(phys) + '\n'
    model0, err0, other0 = parse_text(intact, start)
    if model0 is None:
        stats.c['generated_program_rejected_by_the_parser'] += 1
        return RunResult([], digest_of('invalid-program'))
    frng = stream(plan.get('fault_seed', 0), 'faults')
    _p, logicals0 = reflines.logical_lines(intact)
    phys_to_logical = {}
    for lg in logicals0:
        for i in lg.phys:
            phys_to_logical[i] = lg.number
    single_line = {lg.phys[0]: True for lg in logicals0 if len(lg.phys) == 1 and not lg.dangling}
    outcomes = []
    only = plan.get('only_fault')

    def case(text, fault, light=False):
        if only is not None and fault_key(fault) != only:
            return
        fault['seed'] = plan.get('fault_seed', 0)
        before = len(viols)
        oc = check_delivered(text, start, fault, stats, viols, light=light, chunk_rng=frng, n_chunks=lay.get('n_chunks', 1))
        outcomes.append((fault_key(fault), oc))
        stats.faults[fault['kind']] += 1
        if oc != 'accepted' or fault['kind'] == 'none':
            stats.distinct['nontrivial'].add(digest_of((fault['kind'], fault.get('stmt'), oc,
                                                        (fault.get('col') or 0) // 8, len(phys) // 4)))
        if len(viols) > before:
            viols[-1].detail['fault_key'] = fault_key(fault)
        elif stream(plan.get('fault_seed', 0), 'interloper:' + fault_key(fault)).random() < 0.04:
            irng = stream(plan.get('fault_seed', 0), 'interloper-kind:' + fault_key(fault))
            # fault kind interloper: the same delivered text once more, its reader running a nested independent parse
            # (valid or failing) between two chunks: same model / same diagnostic, and the nested parse undisturbed
            kind = irng.choice(['parse', 'parse_error', 'parse_error', 'exec_ok', 'expr'])
            cut = irng.randint(0, text.count('\n') + 1)
            a = parse_text(text, start)
            interference = []
            b = parse_text(text, start, interlope=(cut, kind), interference=interference)
            stats.c['evaluations'] += 1
            stats.faults['interloper:' + kind] += 1
            stats.probes['nested_independent_use_inside_the_reader'] += 1

            def view(r):
                m, e, o = r
                return (m, None if e is None else (str(e), e.line_number, e.column_number), None if o is None else type(o).__name__)
            if interference:
                viols.append(Violation(PROP, 'reentrant', 'nested-independent-use-disturbed:' + kind,
                                       dict(interference[0], fault=fault, fault_key=fault_key(fault))))
            elif view(a) != view(b):
                viols.append(Violation(PROP, 'reentrant', 'parse-disturbed-by-nested-independent-use:' + kind,
                                       {'fault': fault, 'fault_key': fault_key(fault), 'cut_after_line': cut,
                                        'alone': str(view(a)[1:])[:300], 'with_nested_use': str(view(b)[1:])[:300]}))

    case(intact, {'kind': 'none'})
    n = len(phys)
    # 1. EOF after every physical line (enumeration)
    for k in range(0, n):
        case('\n'.join(phys[:k]) + ('\n' if k and frng.random() < 0.7 else ''), {'kind': 'reader_eof_line', 'after': k})
        if len(viols) > 8:
            break
    # 2. EOF at byte offsets
    offsets = set()
    for _ in range(6):
        offsets.add(frng.randrange(0, len(intact)))
    for i, ch in enumerate(intact):
        if ch == '\\' and frng.random() < 0.5:
            offsets.add(i + 1)
        if ch in '\'"' and frng.random() < 0.1:
            offsets.add(i + 1)
    for off in sorted(offsets)[:16]:
        case(intact[:off], {'kind': 'reader_eof_byte', 'offset': off})
    # 3. dangling continuation
    for _ in range(3):
        k = frng.randint(1, n)
        nb = frng.randint(1, 8)
        if _c10.reflines._COMMENT.match(phys[k - 1]):
            continue
        text = '\n'.join(phys[:k - 1] + [phys[k - 1].rstrip() + ' ' + '\\' * nb + frng.choice(['', ' ', '\t'])]) + \
            frng.choice(['', '\n', '\n\n', '\n# c\n'])
        case(text, {'kind': 'dangling_continuation', 'after': k, 'backslashes': nb})
    # 4. closer deleted
    closers = [i for i, t in enumerate(phys) if t.strip() in ('endif', 'endwhile', 'endfor', 'endfunction')]
    for i in frng.sample(closers, min(3, len(closers))):
        case('\n'.join(phys[:i] + phys[i + 1:]) + '\n', {'kind': 'closer_delete', 'line': i + 1, 'stmt': phys[i].strip()})
    # 4b. structural faults: an opener lost, a line duplicated, two lines swapped, a stray block keyword inserted
    #     (they provoke the 'No matching …', 'Multiple else', 'Nested function', '… outside of loop' diagnostics)
    openers = [i for i, t in enumerate(phys) if stmt_kind(t) in ('if', 'while', 'for', 'function') and t.rstrip().endswith(':')
               and not t.rstrip().endswith('\\')]
    for i in frng.sample(openers, min(2, len(openers))):
        case('\n'.join(phys[:i] + phys[i + 1:]) + '\n', {'kind': 'opener_delete', 'line': i + 1, 'stmt': stmt_kind(phys[i])})
    plain = [i for i, t in enumerate(phys) if not _c10.reflines._COMMENT.match(t) and single_line.get(i)]
    for i in frng.sample(plain, min(2, len(plain))):
        case('\n'.join(phys[:i + 1] + [phys[i]] + phys[i + 1:]) + '\n', {'kind': 'line_dup', 'line': i + 1, 'stmt': stmt_kind(phys[i])})
        if i + 1 < n and single_line.get(i + 1):
            case('\n'.join(phys[:i] + [phys[i + 1], phys[i]] + phys[i + 2:]) + '\n',
                 {'kind': 'line_swap', 'line': i + 1, 'stmt': stmt_kind(phys[i])})
    for _ in range(2):
        kw = frng.choice(['break', 'continue', 'endif', 'endwhile', 'endfor', 'endfunction', 'else:', 'elif x:',
                          'function nested():', 'return'])
        at = frng.randint(0, n)
        if at > 0 and phys[at - 1].rstrip().endswith('\\'):
            continue
        case('\n'.join(phys[:at] + [frng.choice(['', '  ', '\t']) + kw] + phys[at:]) + '\n',
             {'kind': 'stray_keyword', 'line': at + 1, 'stmt': kw})
    # 5. token faults on chosen statement lines
    stmt_lines = [i for i, t in enumerate(phys) if not _c10.reflines._COMMENT.match(t)]
    for i in frng.sample(stmt_lines, min(3, len(stmt_lines))):
        t = phys[i]
        outside = set(gen_source.outside_literal_positions(t))
        cols = list(range(len(t))) if len(t) <= 60 else sorted(frng.sample(range(len(t)), 40))
        for cix in cols:
            if t[cix] in ' \t':
                continue
            corrupted = t[:cix] + '@' + t[cix + 1:]
            span = expr_span(t) if single_line.get(i) else None
            if span is not None and not span[0] <= cix < span[1]:
                span = None
            case('\n'.join(phys[:i] + [corrupted] + phys[i + 1:]) + '\n',
                 {'kind': 'token_corrupt', 'line': i + 1, 'col': cix + 1, 'outside': bool(cix in outside),
                  'logical_number': phys_to_logical.get(i), 'stmt': stmt_kind(t), 'expr_span': span,
                  'corrupted_line': corrupted if span is not None else None}, light=(cix % 5 != 0))
            if len(viols) > 8:
                break
        toks = t.split(' ')
        for _ in range(2):
            if len(toks) > 1:
                j = frng.randrange(len(toks))
                t2 = ' '.join(toks[:j] + toks[j + 1:])
                case('\n'.join(phys[:i] + [t2] + phys[i + 1:]) + '\n',
                     {'kind': 'token_delete', 'line': i + 1, 'token': j, 'stmt': stmt_kind(t)})
                j = frng.randrange(len(toks) - 1)
                t3 = ' '.join(toks[:j] + [toks[j + 1], toks[j]] + toks[j + 2:])
                case('\n'.join(phys[:i] + [t3] + phys[i + 1:]) + '\n',
                     {'kind': 'token_swap', 'line': i + 1, 'token': j, 'stmt': stmt_kind(t)})
    # 6. malformed headers whose expression text also occurs EARLIER in the line, and blanked expressions
    #    (the column must come from where the expression really starts, not from a text search)
    headers = [i for i in stmt_lines if single_line.get(i) and stmt_kind(phys[i]) in ('if', 'elif', 'while', 'for')]
    for i in frng.sample(headers, min(2, len(headers))):
        t = phys[i]
        kind = stmt_kind(t)
        indent = t[:len(t) - len(t.lstrip())]
        echo = {'if': 'if f f:', 'elif': 'elif f f:', 'while': 'while e e:', 'for': 'for a, b in a, b:'}[kind]
        for variant, text in (('echo', indent + echo),
                              ('blank', indent + {'for': 'for v in'}.get(kind, kind) + ' ' * frng.choice([2, 3, 7, 150]) + ':')):
            span = expr_span(text)
            case('\n'.join(phys[:i] + [text] + phys[i + 1:]) + '\n',
                 {'kind': 'header_' + variant, 'line': i + 1, 'stmt': kind, 'expr_span': span, 'corrupted_line': text,
                  'logical_number': phys_to_logical.get(i), 'outside': False})
    if lstat['breaks']:
        stats.probes['program_with_continued_lines'] += 1
    if any(len(t) > 120 for t in phys):
        stats.probes['program_with_long_lines'] += 1
    if len(lines) > 30:
        stats.probes['deep_or_long_program'] += 1
    sample = None
    if plan.get('seed', 0) % 37 == 1:
        sample = {'seed': plan.get('seed'), 'text': phys[:14], 'start_line_number': start, 'cases': outcomes[:12]}
    return RunResult(viols[:10], digest_of(outcomes), sample)


def fault_key(fault):
    return '|'.join(f'{k}={fault[k]}' for k in sorted(fault)
                    if k not in ('seed', 'stmt', 'outside', 'logical_number', 'expr_span', 'corrupted_line'))


import re as _re
_SPANS = [
    _re.compile(r'^(\s*(?:if|elif|while)\s+)(.+?)(\s*:\s*)$'),
    _re.compile(r'^(\s*for\s+[A-Za-z_]\w*(?:\s*,\s*[A-Za-z_]\w*)?\s+in\s+)(.+?)(\s*:\s*)$'),
    _re.compile(r'^(\s*return\s+)(\S.*?)(\s*)$'),
    _re.compile(r'^(\s*jumpif\s*\()(.+)(\)\s+[A-Za-z_]\w*\s*)$'),
    _re.compile(r'^(\s*[A-Za-z_]\w*\s*=\s*)(.+?)(\s*)$'),
]


def expr_span(line):
    """(start, end) of the expression part of a statement line, by this module's own reading of the
    statement forms; None for statements without an expression. Expression statements: whole line."""
    kind = stmt_kind(line)
    if kind in ('function', 'endfunction', 'else', 'endif', 'endwhile', 'endfor', 'break', 'continue', 'jump',
                'include', 'label'):
        return None
    if kind == 'expression':
        return (0, len(line.rstrip()))
    for rx in _SPANS:
        m = rx.match(line)
        if m:
            return (m.start(2), m.end(2))
    return None


def reducible(plan):
    return [plan['lines']]


def simplify(plan, v):
    out = []
    fk = (v.detail or {}).get('fault_key') if isinstance(v.detail, dict) else None
    if fk and plan.get('only_fault') != fk:
        c = copy.deepcopy(plan)
        c['only_fault'] = fk
        out.append(c)
    lay = plan['layout']
    for key, val in (('p_insert', 0.0), ('p_break', 0.0), ('n_chunks', 1)):
        if lay.get(key) != val:
            c = copy.deepcopy(plan)
            c['layout'][key] = val
            c.pop('only_fault', None)
            out.append(c)
    if plan.get('start', 1) != 1:
        c = copy.deepcopy(plan)
        c['start'] = 1
        out.append(c)
    return out


def simulated_time(total):
    return {'unit': 'faulty deliveries parsed (cases)', 'value': int(total.c.get('evaluations', 0))}
