"""C15 — array, object and string functions obey their contracts under any history.

A pool of global names bound to arrays, objects and strings (some aliasing each other, some nested
inside others) is shared by 1-3 script clients whose statements are
`target = hostObserve(<opId>, <library call on pool members>)`; the seeded scheduler interleaves
the clients at statement granularity over the SAME globals. RefHeap is stepped in the global order
in which the operations completed; after every operation the result (value, or identity class for
containers) and the whole pool (contents AND alias structure) must agree.
"""
import collections
import copy
import datetime
import re
import urllib.parse

from .. import ir, refheap
from ..core import Stats, Violation, stream, digest_of, Scheduler, SimWatchdog, canon
from ..driver import RunResult
from ..refheap import Opaque, Fail, Unspecified, UNCHECKED

PROP = 'C15'
LEVEL = 'exploration'
ISOLATE = False
RULE = ('seeded histories (<= 3 clients x <= 30 operations) over the array*/object*/string*/regexEscape/urlEncode* '
        'functions applied to a pool of aliased, nested containers, ~30% faulty calls (wrong type of all nine types, '
        'missing, surplus, out-of-range and fractional indices written as float literals); one evaluation = one '
        'operation compared with RefHeap (result + whole pool + alias structure); non-trivial = a mutator, a faulty '
        'call or a call on an aliased/nested container; distinct by digest(function, argument classes, outcome class, '
        'aliasing of the receiver)')
COMPONENTS = {
    'real': ['bare_script.library array*/object*/string*/regexEscape/urlEncode* functions', 'bare_script.value.'
             'value_args_validate', 'bare_script.runtime (call wrapper, globals)'],
    'stub': ['hostObserve (steps the reference heap)', 'client threads scheduled by the simulator', 'options (SimOptions)'],
}
ASSUMPTIONS = [
    'RefHeap encodes the documented contract of each function (DESIGN.md Appendix A)',
    'corners the documentation leaves open are excluded from generation: empty search/separator strings (except in '
    'stringReplace, where the str model is unambiguous), the return value of arrayDelete, arbitrary functions as '
    'comparator / matcher (four simulated compare functions and one simulated match function, all pure and total, ARE '
    'generated and modelled), explicit null for defaulted arguments, negative zero',
]


def budget(tier):
    if tier == 'thorough':
        return {'seeds': 650000, 'chunk': 500, 'wall_cap': 1200, 'extra': {'big': True}}
    return {'seeds': 20000, 'chunk': 100, 'wall_cap': 240, 'extra': None}


# --------------------------------------------------------------------------------------------
# plan generation (G-ops)
# --------------------------------------------------------------------------------------------
STR_POOL = ['', 'a', 'abc', 'hello world', 'aXbXc', 'é𝄞z', '  pad  ', 'a.b*c', 'x/y?z=1&w', 'AbC', '𝄞𝄞', 'x%41y', '50% a+b#c',
            "q'r\"s", '[a-z]+$^|(x){2}\\d', 'a\x0012', '\x007b\x00', 'tab\there\nline', '\x7f\x1f-\r', '\ud83d', 'a\udc00b']
SUBS = ['a', 'X', 'b', 'lo', 'z', ' ', 'é', '𝄞', 'abc', 'c']
KEYS = ['k1', 'k2', 'k3', 'a', '10', '2', '0', '007', '-1', 'é']
IDX = [-2, -1, 0, 0, 1, 1, 2, 2, 3, 4, 5, 6, 9, 0.5, 1.5, 2.0, 1.0]


def gen(seed, tier, extra=None):
    rng = stream(seed, 'plan')
    big = bool((extra or {}).get('big'))
    pool = {}
    n_arr, n_obj, n_str = rng.randint(1, 3), rng.randint(1, 2), rng.randint(1, 2)
    names_a = [f'a{i}' for i in range(n_arr)]
    names_o = [f'o{i}' for i in range(n_obj)]
    names_s = [f's{i}' for i in range(n_str)]

    def scalar():
        c = rng.random()
        if c < 0.4:
            return rng.choice([0, 1, 2, 3, 5, 10, 2.5, 2.5, 1e16, 1e21, 9007199254740992, 123456789012345680000, 1e-7])
        if c < 0.7:
            return rng.choice(STR_POOL)
        return rng.choice([None, True, False])

    for n in names_a:
        items = [scalar() for _ in range(rng.randint(0, 5))]
        pool[n] = ['L', items]
    for n in names_o:
        pool[n] = ['D', [[rng.choice(KEYS), scalar()] for _ in range(rng.randint(0, 3))]]
    for n in names_s:
        pool[n] = rng.choice(STR_POOL)
    # nesting: containers holding other pool members; aliases: extra names for the same object
    rs = stream(seed, 'selfref')
    for n in names_a + names_o:
        if rs.random() < 0.12:
            # a container that contains itself (arrayPush(a, a) / objectSet(o, 'self', o) make these in any program)
            if pool[n][0] == 'L':
                pool[n][1].append(['ref', n])
            else:
                pool[n][1].append(['self', ['ref', n]])
    for n in names_a + names_o:
        if rng.random() < 0.4:
            other = rng.choice(names_a + names_o)
            if other != n:
                if pool[n][0] == 'L':
                    pool[n][1].insert(rng.randint(0, len(pool[n][1])), ['ref', other])
                else:
                    pool[n][1].append([rng.choice(KEYS), ['ref', other]])
    # a DISTINCT object with the same members in another insertion order, next to an array that holds the original:
    # value comparison (arrayIndexOf, arraySort) does not depend on the order in which keys were set
    rq = stream(seed, 'permuted')
    pool_directed = []
    if rq.random() < 0.35:
        src = names_o[0]
        items = [it for it in pool[src][1] if not (isinstance(it[1], list) and it[1][:1] == ['ref'])]
        keys = [k for k, _v in pool[src][1]]
        if len(keys) == len(set(keys)) and len(items) == len(keys):
            while len(keys) < 2:
                k = rq.choice([k for k in KEYS if k not in keys])
                pool[src][1].append([k, rq.choice([0, 1, 'v', None])])
                keys.append(k)
            pool['oq'] = ['D', [list(it) for it in reversed(pool[src][1])]]
            names_o.append('oq')
            host_name = rq.choice(names_a)
            host = pool[host_name][1]
            host.insert(rq.randint(0, len(host)), ['ref', src])
            pool_directed = [{'fn': fn, 'args': [['var', host_name], ['var', 'oq']]} for fn in
                             rq.sample(['arrayIndexOf', 'arrayLastIndexOf', 'arrayIndexOf'], 2)]
    for i in range(rng.randint(0, 2)):
        pool[f'al{i}'] = ['alias', rng.choice(names_a + names_o)]
    # host-supplied containers need not be plain list / dict instances: the embedding application may hand over dict
    # and list subclasses (collections.defaultdict, OrderedDict, a list subclass) — same contracts
    rf = stream(seed, 'flavour')
    for n in names_a + names_o:
        if rf.random() < 0.15:
            pool[n].append(rf.choice(['defaultdict', 'ordered', 'counterlike']) if pool[n][0] == 'D' else 'listsub')
    plan = {'seed': seed, 'pool': pool, 'clients': [], 'policy': rng.choice(['random', 'random', 'lowest'])}
    arrays = names_a + [k for k, v in pool.items() if isinstance(v, list) and v[0] == 'alias' and v[1] in names_a]
    objects = names_o + [k for k, v in pool.items() if isinstance(v, list) and v[0] == 'alias' and v[1] in names_o]
    strings = list(names_s)
    n_clients = rng.choice([1, 1, 2, 3])
    n_tmp = [0]
    for ci in range(n_clients):
        ops = []
        for oi in range(rng.randint(3, 30 if big else 16)):
            ops.append(gen_op(rng, f'c{ci}_{oi}', arrays, objects, strings, n_tmp))
        plan['clients'].append(ops)
    # a script match function that keeps its argument array (single-client runs only: its statements are pre-emption
    # points, and the reference applies an operation atomically)
    rk = stream(seed, 'keep')
    if n_clients == 1 and arrays and rk.random() < 0.3:
        for j in range(rk.randint(1, 2)):
            args = [['var', rk.choice(arrays)], ['var', 'fnKeep']]
            if rk.random() < 0.3:
                args.append(['num', rk.choice(IDX)])
            ops = plan['clients'][0]
            ops.insert(rk.randint(0, len(ops)), {'id': f'c0_k{j}', 'fn': rk.choice(['arrayIndexOf', 'arrayLastIndexOf']),
                                                 'args': args, 'target': None, 'fault': None})
    # A-B-A histories: an operation on a pool container, a length-preserving change of that container, the SAME operation
    # again (what a result or "already done" memo keyed by identity and length would get wrong)
    ra = stream(seed, 'aba')
    if ra.random() < 0.3:
        ops = plan['clients'][0]
        cands = [ix for ix, op in enumerate(ops) if op['args'] and op['args'][0][0] == 'var' and op['args'][0][1] in arrays + objects]
        if cands:
            ix = ra.choice(cands)
            op = ops[ix]
            name = op['args'][0][1]
            value = ra.choice([['num', 9], ['str', 'zz'], ['lit', 'null'], ['num', -3]])
            if name in arrays:
                change = {'fn': 'arraySet', 'args': [['var', name], ['num', ra.choice([0, 0, 1, 2])], value]}
            else:
                change = {'fn': 'objectSet', 'args': [['var', name], ['str', ra.choice(KEYS)], value]}
            again = {'id': 'c0_a1', 'fn': op['fn'], 'args': copy.deepcopy(op['args']), 'target': None, 'fault': None}
            ops[ix + 1:ix + 1] = [dict(change, id='c0_a0', target=None, fault=None), again]
    for j, d in enumerate(pool_directed):
        ops = plan['clients'][0]
        ops.insert(rq.randint(0, min(3, len(ops))), {'id': f'c0_q{j}', 'fn': d['fn'], 'args': d['args'], 'target': None,
                                                     'fault': None})
    return plan


def gen_op(rng, op_id, arrays, objects, strings, n_tmp):
    fn = rng.choice(sorted(refheap.SIGNATURES))
    sig = refheap.SIGNATURES[fn]
    faulty = rng.random() < 0.3
    args = []

    def any_value():
        c = rng.random()
        if c < 0.3:
            return ['num', rng.choice([0, 1, 2, 3, 7, 2.5])]
        if c < 0.55:
            return ['str', 'v' + op_id]
        if c < 0.65:
            return ['lit', rng.choice(['null', 'true', 'false'])]
        if c < 0.8 and arrays:
            return ['var', rng.choice(arrays)]
        if c < 0.9 and objects:
            return ['var', rng.choice(objects)]
        return ['new', rng.choice(['arrayNew', 'objectNew'])]

    def valid(kind):
        if kind == 'array':
            return ['var', rng.choice(arrays)] if arrays and rng.random() < 0.9 else ['new', 'arrayNew']
        if kind == 'object':
            return ['var', rng.choice(objects)] if objects and rng.random() < 0.9 else ['new', 'objectNew']
        if kind == 'string':
            return ['var', rng.choice(strings)] if strings and rng.random() < 0.6 else ['str', rng.choice(STR_POOL)]
        if kind == 'ix':
            return ['num', rng.choice(IDX)]
        if kind == 'small':
            return ['num', rng.choice([0, 1, 2, 3, 4, -1, 1.5])]
        if kind == 'key':
            return ['str', rng.choice(KEYS)]
        if kind == 'sub':
            if fn == 'stringReplace' and rng.random() < 0.12:
                return ['str', '']          # an empty search string (the smallest one)
            return ['str', rng.choice(SUBS)]
        if kind == 'code':
            return ['num', rng.choice([65, 97, 233, 0x1D11E, 48, 0, -1, 65.5, 0x110000, 32])]
        if kind == 'cmp':
            return ['var', rng.choice(['hostCmp', 'hostCmpLen', 'hostCmpNested', 'hostCmpNested', 'hostCmpDiff'])]
        return any_value()

    def wrong(kind):
        base = {'array': 'array', 'object': 'object', 'string': 'string', 'ix': 'number', 'small': 'number', 'key': 'string',
                'sub': 'string', 'code': 'number'}.get(kind)
        choices = [('null', ['lit', 'null']), ('boolean', ['lit', 'true']), ('number', ['num', 1]), ('string', ['str', 'w']),
                   ('datetime', ['var', 'vDt']), ('array', ['new', 'arrayNew']), ('object', ['new', 'objectNew']),
                   ('function', ['var', 'hostNop']), ('regex', ['var', 'vRe'])]
        # wrong-typed arguments are often the pool's own (aliased, nested, possibly self-containing) containers
        # (never a temporary: a t-variable may have been re-assigned a NUMBER taken out of a container, and a huge
        # number in a size position — arrayNewSize(1e16) — is a loop of CPython magnitude, not a wrong-typed argument)
        named_a = [n for n in arrays if not n.startswith('t')]
        named_o = [n for n in objects if not n.startswith('t')]
        if named_a:
            choices += [('array', ['var', rng.choice(named_a)])] * 2
        if named_o:
            choices += [('object', ['var', rng.choice(named_o)])] * 2
        if kind == 'cmp':
            base = 'function'
            choices = [c for c in choices if c[0] != 'null']      # the compare function is nullable
        choices = [c for c in choices if c[0] != base]
        return rng.choice(choices)[1]

    fault_kind = None
    for kind in sig:
        variadic = kind.startswith('*')
        optional = kind.startswith('?')
        k = kind.lstrip('*?')
        if variadic:
            n = rng.randint(0, 3)
            for j in range(n):
                if k == 'kv':
                    args.append(['str', rng.choice(KEYS)] if not (faulty and rng.random() < 0.3) else ['num', 1])
                    if j < n - 1 or rng.random() < 0.8:
                        args.append(any_value())
                else:
                    args.append(valid(k) if k != 'any' else any_value())
            continue
        if optional and rng.random() < 0.5:
            break
        if k == 'any':
            if fn in ('arrayIndexOf', 'arrayLastIndexOf') and rng.random() < 0.25:
                args.append(['var', 'hostPred'])       # a match function instead of a value
            else:
                args.append(any_value())
        else:
            args.append(valid(k))
    if faulty and sig and not sig[0].startswith('*'):
        c = rng.random()
        fixed = [kd for kd in sig if not kd.startswith('*')]
        if c < 0.45 and args:
            j = rng.randrange(min(len(args), len(fixed)))
            if fixed[j].lstrip('?') != 'any':
                args[j] = wrong(fixed[j].lstrip('?'))
                fault_kind = 'wrong-type'
        elif c < 0.65 and args:
            args = args[:rng.randrange(len(args))]
            fault_kind = 'missing'
        elif c < 0.85 and not any(kd.startswith('*') for kd in sig):
            while len(args) < len(sig):
                kd = sig[len(args)].lstrip('?')
                args.append(valid(kd) if kd != 'any' else any_value())
            args.append(any_value())
            fault_kind = 'surplus'
        else:
            for j, kd in enumerate(fixed):
                if kd.lstrip('?') in ('ix', 'small') and j < len(args):
                    args[j] = ['num', rng.choice([-1, -2, 99, 0.5, 1.5, 7])]
                    fault_kind = 'out-of-range'
    target = None
    c = rng.random()
    if c < 0.25:
        n_tmp[0] += 1
        target = f't{n_tmp[0] % 4}'
        ret = {'arrayCopy': arrays, 'arraySlice': arrays, 'arrayNew': arrays, 'arrayNewSize': arrays, 'objectKeys': arrays,
               'stringSplit': arrays, 'objectCopy': objects, 'objectNew': objects}.get(fn)
        if ret is not None and target not in ret and rng.random() < 0.7:
            ret.append(target)
    return {'id': op_id, 'fn': fn, 'args': args, 'target': target, 'fault': fault_kind}


# --------------------------------------------------------------------------------------------
# building the two worlds
# --------------------------------------------------------------------------------------------
class HostList(list):
    """A list subclass, as an embedding application may supply one."""
    __slots__ = ()


def build_pool(spec, real):
    """Construct the pool twice by the same recipe -> the bijection real<->ref holds by construction."""
    objs = {}
    order = [k for k, v in spec.items() if not (isinstance(v, list) and v and v[0] == 'alias')]
    for name in order:
        v = spec[name]
        flavour = v[2] if isinstance(v, list) and len(v) > 2 and real else None
        if isinstance(v, list) and v[0] == 'L':
            objs[name] = HostList() if flavour == 'listsub' else []
        elif isinstance(v, list) and v[0] == 'D':
            objs[name] = collections.defaultdict(list) if flavour == 'defaultdict' else \
                collections.OrderedDict() if flavour == 'ordered' else \
                collections.defaultdict(lambda: 0.0) if flavour == 'counterlike' else {}
        else:
            objs[name] = v

    def val(x):
        if isinstance(x, list) and x and x[0] == 'ref':
            return objs.get(x[1])
        if isinstance(x, (int, float)) and not isinstance(x, bool):
            return float(x)
        return x
    for name in order:
        v = spec[name]
        if isinstance(v, list) and v[0] == 'L':
            objs[name].extend(val(x) for x in v[1])
        elif isinstance(v, list) and v[0] == 'D':
            for k, x in v[1]:
                objs[name][k] = val(x)
    for name, v in spec.items():
        if isinstance(v, list) and v and v[0] == 'alias':
            objs[name] = objs.get(v[1])
    return objs


def op_expr(op):
    def arg(a):
        if a[0] == 'var':
            return ir.var(a[1])
        if a[0] == 'num':
            if a[1] < 0:
                return ir.unop('-', ir.num(-a[1]))
            return ir.num(a[1])
        if a[0] == 'str':
            return ir.s(a[1])
        if a[0] == 'lit':
            return ir.var(a[1])
        return ir.call(a[1])
    return ir.call(op['fn'], *[arg(a) for a in op['args']])


def client_model(ops):
    stmts = []
    for op in ops:
        e = ir.call('hostObserve', ir.s(op['id']), op_expr(op))
        stmts.append(ir.st_expr(e, op['target']) if op['target'] else ir.st_expr(e))
    return {'statements': stmts}


def iso(real, ref, r2f, f2r, path='$', depth=0):
    """Simultaneous traversal: equal contents AND the same alias structure. Returns None or a path."""
    if isinstance(ref, Opaque):
        return None if not isinstance(real, (list, dict, str, bool, int, float, type(None))) else path + ': opaque expected'
    if isinstance(ref, list) or isinstance(ref, dict):
        if not isinstance(real, type(ref)):
            return f'{path}: {type(real).__name__} vs {type(ref).__name__}'
        if id(real) in r2f or id(ref) in f2r:
            if r2f.get(id(real)) != id(ref) or f2r.get(id(ref)) != id(real):
                return f'{path}: alias structure differs'
            return None
        r2f[id(real)] = id(ref)
        f2r[id(ref)] = id(real)
        if len(real) != len(ref):
            return f'{path}: length {len(real)} vs {len(ref)}'
        if depth > 30:
            return None
        if isinstance(ref, list):
            for ix, (a, b) in enumerate(zip(real, ref)):
                d = iso(a, b, r2f, f2r, f'{path}[{ix}]', depth + 1)
                if d:
                    return d
            return None
        if list(real.keys()) != list(ref.keys()):
            return f'{path}: keys {list(real.keys())} vs {list(ref.keys())}'
        for k in ref:
            d = iso(real[k], ref[k], r2f, f2r, f'{path}.{k}', depth + 1)
            if d:
                return d
        return None
    if isinstance(ref, bool) or ref is None:
        return None if real is ref else f'{path}: {real!r} vs {ref!r}'
    if isinstance(ref, (int, float)):
        if isinstance(real, bool) or not isinstance(real, (int, float)) or real != ref:
            return f'{path}: {real!r} vs {ref!r}'
        return None
    if isinstance(ref, str):
        return None if isinstance(real, str) and real == ref else f'{path}: {real!r} vs {ref!r}'
    return f'{path}: unexpected reference value'


def run(plan, stats):
    from bare_script import execute_script
    from bare_script.runtime import BareScriptRuntimeError
    from ..core import SimOptions
    viols = []
    real_pool = build_pool(plan['pool'], True)
    ref_pool = build_pool(plan['pool'], False)
    opaque = {'vDt': Opaque('datetime'), 'vRe': Opaque('regex'), 'hostNop': Opaque('function'), 'hostPred': Opaque('pred'),
              'fnKeep': Opaque('pred:keep'),
              'hostCmp': Opaque('cmp:desc'), 'hostCmpLen': Opaque('cmp:len'), 'hostCmpNested': Opaque('cmp:nested'),
              'hostCmpDiff': Opaque('cmp:diff')}
    ref_globals = dict(ref_pool)
    ref_globals.update(opaque)
    ref_globals['gKept'] = []
    refheap.KEPT[0] = ref_globals['gKept']
    ops_by_id = {op['id']: op for ops in plan['clients'] for op in ops}
    rng = stream(plan.get('seed', 0), 'schedule')
    sched = Scheduler(rng, max_events=20000, policy=plan.get('policy', 'random'))
    order = []
    stop = {'bad': False}

    globals_ = dict(real_pool)
    globals_['vDt'] = datetime.datetime(2020, 1, 2, 3, 4, 5)
    globals_['vRe'] = re.compile('a')
    globals_['hostNop'] = lambda args, options: None
    globals_['hostPred'] = lambda args, options: copy.deepcopy(refheap.pred_value(args[0] if args else None))
    globals_['hostCmp'] = lambda args, options: refheap.cmp_value('desc', args[0], args[1])
    globals_['hostCmpLen'] = lambda args, options: refheap.cmp_value('len', args[0], args[1])
    globals_['hostCmpDiff'] = lambda args, options: refheap.cmp_value('diff', args[0], args[1])

    def host_cmp_nested(args, options):
        # a compare function that itself sorts an unrelated array with another compare function while the outer
        # sort is in progress (with the options it was handed)
        from bare_script.library import SCRIPT_FUNCTIONS
        scratch = [3.0, 'bb', 1.0, 'a', 2.0, None]
        SCRIPT_FUNCTIONS['arraySort']([scratch, globals_['hostCmpLen']], options)
        stats.faults['nested_sort_inside_compare_function'] += 1
        return refheap.cmp_value('nested', args[0], args[1])
    globals_['hostCmpNested'] = host_cmp_nested
    # fnKeep(vals...): a SCRIPT match function with only a last-argument array, which it keeps (the way the shipped
    # unittestMock functions log their calls) before answering like hostPred
    globals_['gKept'] = []
    execute_script({'statements': [ir.st_function('fnKeep', ['vals'], [
        ir.st_expr(ir.call('arrayPush', ir.var('gKept'), ir.var('vals'))),
        ir.st_return(ir.call('hostPred', ir.call('arrayGet', ir.var('vals'), ir.num(0))))], True)]}, {'globals': globals_})

    def ref_arg(a):
        if a[0] == 'var':
            return ref_globals.get(a[1])
        if a[0] == 'num':
            return float(a[1])
        if a[0] == 'str':
            return a[1]
        if a[0] == 'lit':
            return {'null': None, 'true': True, 'false': False}[a[1]]
        return [] if a[1] == 'arrayNew' else {}

    def check_state(op):
        r2f, f2r = {}, {}
        for name in sorted(ref_globals):
            if name in opaque:
                continue
            d = iso(globals_.get(name), ref_globals[name], r2f, f2r, '$' + name)
            if d:
                return d
        return None

    harness = []

    def host_observe_for(task):
        def host_observe(args, options):
            try:
                return host_observe_inner(task, args)
            except Exception as exc:  # pylint: disable=broad-except
                # never let the runtime's call wrapper contain a failure of the harness itself
                import traceback
                harness.append(traceback.format_exc()[-1500:])
                stop['bad'] = True
                sched.abandon = True
                return args[1] if len(args) > 1 else None
        return host_observe

    def host_observe_inner(task, args):
        if True:
            op = ops_by_id.get(args[0]) if args else None
            real_result = args[1] if len(args) > 1 else None
            if op is None or stop['bad']:
                return real_result
            order.append(op['id'])
            stats.c['evaluations'] += 1
            ref_args = [ref_arg(a) for a in op['args']]
            outcome = 'ok'
            try:
                ref_result = refheap.FUNCS[op['fn']](ref_args)
            except Fail as f:
                ref_result = f.value
                outcome = 'fail'
            except Unspecified:
                # the documentation does not say: adopt the real state and carry on (never flagged)
                stats.c['unspecified_ops'] += 1
                stop['bad'] = True
                stats.notes['history-cut-at-unspecified-operation'] += 1
                return real_result
            fn = op['fn']
            # result
            bad = None
            if ref_result is UNCHECKED:
                if fn in ('regexEscape', 'urlEncode', 'urlEncodeComponent'):
                    bad = check_escape_url(fn, ref_args[0], real_result, stats)
            elif isinstance(ref_result, (list, dict)):
                known = {id(v): k for k, v in ref_globals.items() if isinstance(v, (list, dict))}
                if not isinstance(real_result, type(ref_result)):
                    bad = f'result {type(real_result).__name__}, expected {type(ref_result).__name__}'
                else:
                    r2f, f2r = {}, {}
                    # seed the bijection with the whole pool so that identity classes are compared
                    for name in sorted(ref_globals):
                        if name not in opaque:
                            iso(globals_.get(name), ref_globals[name], r2f, f2r, '$' + name)
                    d = iso(real_result, ref_result, r2f, f2r, '$result')
                    if d:
                        bad = 'container result: ' + d
            else:
                d = iso(real_result, ref_result, {}, {}, '$result')
                if d:
                    bad = d
            if bad is not None:
                rule = 'atomic-failure' if outcome == 'fail' else ('escape-url' if ref_result is UNCHECKED else 'result')
                viols.append(Violation(PROP, rule, signature(op, ref_args, outcome, 'result'),
                                       {'op': op, 'why': bad, 'real_result': canon(real_result),
                                        'expected': canon(ref_result) if ref_result is not UNCHECKED else 'unchecked',
                                        'history': order[-6:]}))
                stop['bad'] = True
                sched.abandon = True
                return real_result
            # state (before the assignment of the result, on both sides)
            d = check_state(op)
            if d is not None:
                rule = 'atomic-failure' if outcome == 'fail' else 'state'
                viols.append(Violation(PROP, rule, signature(op, ref_args, outcome, 'state'),
                                       {'op': op, 'why': d, 'history': order[-6:]}))
                stop['bad'] = True
                sched.abandon = True
                return real_result
            account(stats, op, ref_args, outcome)
            # pre-emption point: other clients may run between the operation and the assignment
            sched.event(task, 'op', op['id'])
            if op['target']:
                if ref_result is UNCHECKED:
                    ref_globals[op['target']] = real_result if not isinstance(real_result, (list, dict)) else None
                else:
                    ref_globals[op['target']] = ref_result
            return real_result

    escaped = []

    def make_client(ci, ops):
        def body(task):
            g = globals_
            g_local_name = f'hostObserve'
            options = SimOptions({'globals': g, 'maxStatements': 5000})
            options.sim_hook = lambda o, v: sched.event(task, 'stmt', v)
            # each client needs its own hostObserve bound to its task: use a per-client name
            model = client_model(ops)
            fn_name = f'hostObserve{ci}'
            g[fn_name] = host_observe_for(task)
            for st in model['statements']:
                st['expr']['expr']['function']['name'] = fn_name
            try:
                execute_script(model, options)
            except BareScriptRuntimeError as exc:
                escaped.append((ci, 'rt', str(exc)))
            except Exception as exc:  # pylint: disable=broad-except
                if type(exc).__name__ in ('SimKill', 'SimCrash', 'SimWatchdog'):
                    raise
                escaped.append((ci, type(exc).__name__, str(exc)[:200]))
        return body

    for ci, ops in enumerate(plan['clients']):
        sched.add(f'c{ci}', make_client(ci, ops))
    try:
        sched.run()
    except SimWatchdog:
        pass
    if harness:
        from ..core import HarnessError
        raise HarnessError('reference heap failed: ' + harness[0])
    stats.c['scheduler_steps'] += len(sched.choices)
    stats.distinct['interleavings'].add(sched.interleaving_digest())
    for ci, kind, msg in escaped:
        if not viols:
            viols.append(Violation(PROP, 'result', f'client-ended-with-{kind}', {'client': ci, 'message': msg}))
    if len(plan['clients']) > 1 and any(sched.choices[i] != sched.choices[i + 1] for i in range(len(sched.choices) - 1)):
        stats.probes['interleaved_clients_on_shared_pool'] += 1
    sample = None
    if plan.get('seed', 0) % 97 == 1:
        sample = {'seed': plan.get('seed'), 'pool': plan['pool'],
                  'clients': [[ir.render_statements(client_model(ops)['statements'])[:8]] for ops in plan['clients']],
                  'completion_order': order[:20]}
    return RunResult(viols, digest_of((order, sched.choices, canon(globals_.get('a0')))), sample)


def arg_class(v):
    if isinstance(v, Opaque):
        return v.kind
    t = refheap.type_of(v)
    if t == 'number':
        if v != int(v):
            return 'frac'
        return 'neg' if v < 0 else 'ix'
    return t


def signature(op, ref_args, outcome, what):
    classes = ','.join(arg_class(a) for a in ref_args)
    return f'{op["fn"]}({classes}):{outcome}:{what}'


def account(stats, op, ref_args, outcome):
    mutators = {'arrayDelete', 'arrayExtend', 'arrayPop', 'arrayPush', 'arraySet', 'arrayShift', 'arraySort',
                'objectAssign', 'objectDelete', 'objectSet'}
    stats.faults['faulty_call:' + (op.get('fault') or 'none')] += 0 if not op.get('fault') else 1
    if outcome == 'fail':
        stats.probes['call_returned_failure_value'] += 1
    if op['fn'] in mutators and outcome == 'ok':
        stats.probes['mutation_applied'] += 1
    if outcome == 'fail' or op['fn'] in mutators or any(a[0] == 'var' and a[1].startswith('al') for a in op['args']):
        stats.distinct['nontrivial'].add(digest_of((op['fn'], [arg_class(a) for a in ref_args], outcome,
                                                    [a[1][:2] if a[0] == 'var' else a[0] for a in op['args']])))


def check_escape_url(fn, s, real_result, stats):
    if fn != 'regexEscape' and real_result is None and any(0xD800 <= ord(ch) <= 0xDFFF for ch in s):
        # a lone surrogate has no UTF-8 form: the call fails with its failure value (anything it returned instead
        # would have to decode back to the argument, which nothing can)
        stats.probes['urlEncode_of_unencodable_string_gave_null'] += 1
        return None
    if not isinstance(real_result, str):
        return f'{fn}: result is {type(real_result).__name__}'
    if fn == 'regexEscape':
        try:
            rx = re.compile('^(?:' + real_result + ')$', re.S)
        except re.error as exc:
            return f'escaped pattern does not compile: {exc}'
        if not rx.match(s):
            return 'escaped pattern does not match the string itself'
        for ix in range(len(s) + 1):
            for t in (s[:ix] + 'q' + s[ix:], s[:ix] + s[ix + 1:] if ix < len(s) else s + 'Q',
                      (s[:ix] + ('Z' if s[ix] != 'Z' else 'Y') + s[ix + 1:]) if ix < len(s) else s + ' '):
                if t != s and rx.match(t):
                    return f'escaped pattern also matches {t!r}'
        stats.probes['regexEscape_checked'] += 1
        return None
    if urllib.parse.unquote(real_result) != s:
        return 'percent-decoding does not give the string back'
    if not real_result.isascii() or any(ch.isspace() or ord(ch) < 0x21 or ord(ch) == 0x7f for ch in real_result):
        return 'encoded text contains characters outside the printable ASCII range'
    stats.probes['urlEncode_checked'] += 1
    return None


def reducible(plan):
    return list(plan['clients']) + [plan['clients']]


def simplify(plan, v):
    out = []
    if plan.get('policy') != 'lowest':
        c = copy.deepcopy(plan)
        c['policy'] = 'lowest'
        out.append(c)
    for name in list(plan['pool']):
        c = copy.deepcopy(plan)
        del c['pool'][name]
        out.append(c)
    return out


def simulated_time(total):
    return {'unit': 'library operations completed under the scheduler', 'value': int(total.c.get('evaluations', 0))}
