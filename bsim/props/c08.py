"""C08 — jump-level models execute by the documented statement semantics, and execution never
modifies the model.

The model is the durable object; runs are volatile. 2-5 simulated clients execute 1-3 shared,
internally aliased models concurrently (real threads, one baton, seeded scheduler pre-empting at
every statement start and every seam call), with crashes, budget aborts, contained host failures,
nested re-entrancy and stalls injected. Oracles: per-client refinement of RefVM (prefix for crashed
clients), bit-for-bit immutability of every model after EVERY scheduler step, identical histories for
identical clients, and a fault-free restart run per model afterwards.
"""
import copy

from .. import gen_exec
from ..core import Stats, Violation, stream, digest_of, Scheduler, SimCrash, SimKill, SimWatchdog
from ..driver import RunResult
from ..env import Env
from ..realrun import run_real, run_ref, compare_outcomes, norm_events

PROP = 'C08'
LEVEL = 'exploration'
ISOLATE = True      # fork per run: hidden module state cannot leak between runs (see driver.run_isolated)
CAP = 600
MAX_STARTS = 4000
TASK_EVENT_CAP = 12000     # per client: statement starts + host/log events
RULE = ('seeded generation of 1-3 jump-level models (duplicate labels, unknown labels, functions re-using global '
        'label names, shared sub-objects) executed by 2-5 interleaved clients with crash/abort/host-failure/'
        're-entrancy faults; one evaluation = one client execution compared with RefVM; non-trivial = the client '
        'executed at least one jump or function call and at least one other client step was interleaved inside '
        'it; distinct by digest(model shape, client fault kind, outcome class, interleaving)')
COMPONENTS = {
    'real': ['bare_script.runtime (execute_script, statement loop, label cache, function binding, call wrapper)',
             'bare_script.library functions used as callbacks', 'bare_script.data'],
    'stub': ['host functions', 'logFn', 'fetchFn (unused by most models)', 'options (SimOptions seam)',
             'client threads scheduled by the simulator (baton passing)'],
}
ASSUMPTIONS = [
    'RefVM encodes the statement semantics as stated by the property (first label in the same list, return, '
    'function binding at execution, containment of host failures)',
    'pre-emption only at seam and statement granularity, not between arbitrary byte-codes',
    'small statement lists are sampled, not enumerated',
]


def budget(tier):
    if tier == 'thorough':
        return {'seeds': 180000, 'chunk': 200, 'wall_cap': 1200, 'extra': {'big': True}}
    return {'seeds': 12000, 'chunk': 100, 'wall_cap': 240, 'extra': None}


# --------------------------------------------------------------------------------------------
# plan
# --------------------------------------------------------------------------------------------
SMALL_ALPHABET = ('tick', 'assign', 'jump', 'cjump', 'label', 'return', 'function')


CHURN_ALPHABET = ('label', 'label', 'label', 'jump', 'jump', 'cjump', 'cjump', 'tick', 'tick', 'assign', 'return', 'function')


def small_model(rng, gen, max_len=6, alphabet=SMALL_ALPHABET, exact=None):
    """Uniform sample from the property's 'length <= 6' alphabet (sampling, not enumeration)."""
    from .. import ir
    from ..ir import call, s, num, var

    def stmts(n, in_func):
        out = []
        for _ in range(n):
            k = rng.choice(alphabet if not in_func else alphabet[:-1])
            if k == 'tick':
                out.append(gen.tick())
            elif k == 'assign':
                out.append(ir.st_expr(rng.choice([num(rng.randint(0, 3)), var('n0'), call('fnA'), gen.site('num')]),
                                      rng.choice(['n0', 'n1'])))
            elif k == 'jump':
                out.append(ir.st_jump(rng.choice(['A', 'B'])))
            elif k == 'cjump':
                out.append(ir.st_jump(rng.choice(['A', 'B']), gen.site('loop')))
            elif k == 'label':
                out.append(ir.st_label(rng.choice(['A', 'B'])))
            elif k == 'return':
                out.append(ir.st_return(rng.choice([None, num(7), var('n0')])))
            else:
                out.append(ir.st_function('fnA', [], stmts(rng.randint(0, 4), True)))
        return out
    body = stmts(exact if exact else rng.randint(1, max_len), False)
    if rng.random() < 0.5:
        body.append(ir.st_expr(call('fnA')))
    return body


def gen(seed, tier, extra=None):
    rng = stream(seed, 'plan')
    big = bool((extra or {}).get('big'))
    plan = {'seed': seed, 'models': [], 'clients': []}
    n_models = rng.choice([1, 1, 2, 3])
    for _ in range(n_models):
        knobs = {'include': False, 'callbacks': rng.random() < 0.7, 'data': rng.random() < 0.4,
                 'p_nonterm': rng.choice([0.0, 0.1]), 'max_top': rng.choice([3, 6, 10, 16] if not big else [6, 12, 24, 40]),
                 'raw_jumps': rng.choice([0.3, 0.6, 1.0]), 'n_funcs': rng.choice([0, 1, 2, 3])}
        g = gen_exec.ExecGen(rng, knobs)
        if rng.random() < 0.3:
            g.funcs = ['fnA']
            model = small_model(rng, g)
            sub = {'model': model, 'answers': g.answers, 'exprs': {}, 'globals': {}}
        elif rng.random() < 0.2:
            g.k['data'] = False
            sub = g.structured_plan()      # structured source, lowered by the real parser at run time
        else:
            sub = g.gen_plan()
        entry = {'model': sub['model'], 'answers': sub['answers'], 'exprs': sub.get('exprs', {}),
                 'globals': sub.get('globals', {}), 'hosts': sorted(g.used_hosts)}
        if sub.get('source') is not None:
            entry['source'] = sub['source']
        plan['models'].append(entry)
    plan['alias_mode'] = rng.choice(['none', 'statements', 'expressions', 'all', 'all'])
    n_clients = rng.randint(2, 5)
    from ..env import EXC_NAMES
    for ci in range(n_clients):
        mi = rng.randrange(n_models)
        m = plan['models'][mi]
        c = {'model': mi, 'debug': rng.random() < 0.3}
        if ci > 0 and rng.random() < 0.25:
            c['dup_of'] = rng.randrange(ci)
        # per-client environment answers: own perturbation of the model's answers
        answers = copy.deepcopy(m['answers'])
        if rng.random() < 0.6:
            for spec in answers.values():
                if rng.random() < 0.5 and not spec.get('cyclic'):
                    spec['seq'] = [rng.choice([0, 1, 1, 2, ci + 3]) for _ in range(rng.randint(0, 4))]
        c['answers'] = answers
        fk = rng.random()
        c['faults'] = []
        if fk < 0.15:
            c['crash_at'] = rng.randint(1, 30)
        elif fk < 0.30:
            c['limit'] = rng.randint(1, 40)
        elif fk < 0.50 and m['hosts']:
            for _ in range(rng.randint(1, 2)):
                f = {'fn': rng.choice(m['hosts']), 'occ': rng.randint(1, 5), 'exc': rng.choice(EXC_NAMES)}
                if f['exc'] == 'ValueArgsError':
                    f['rv'] = rng.choice([None, -1, 0])
                c['faults'].append(f)
        elif fk < 0.60:
            c['reenter_at'] = rng.randint(1, 4)      # hostTick occurrence that re-enters the runtime
            c['reenter_model'] = rng.randrange(n_models)
        if rng.random() < 0.2:
            c['stall'] = [rng.randint(1, 20), rng.randint(1, 6)]
        plan['clients'].append(c)
    plan['policy'] = rng.choice(['random', 'random', 'random', 'lowest'])
    # churn: a sequence of short-lived models, each built, executed once and dropped — what an embedder that parses
    # and runs many snippets does; the allocator hands the next model the addresses of the previous one
    rc = stream(seed, 'churn')
    if rc.random() < 0.6:
        gc_ = gen_exec.ExecGen(rc, {'include': False, 'callbacks': False, 'data': False, 'p_nonterm': 0.0, 'max_top': 6,
                                    'raw_jumps': 1.0, 'n_funcs': 0})
        gc_.funcs = ['fnA']
        long_ = rc.random() < 0.04
        fixed = rc.choice([4, 5, 6, 8]) if long_ else None      # same-length lists: the stale index is in range again
        plan['churn'] = {'models': [small_model(rc, gc_, max_len=rc.choice([6, 10, 14]), alphabet=CHURN_ALPHABET, exact=fixed)
                                    for _ in range(rc.randint(150, 300) if long_ else rc.randint(4, 14))],
                         'answers': gc_.answers}
    return plan


def client_plan(plan, c, nested=False):
    m = plan['models'][c['model'] if not nested else c['reenter_model']]
    p = {'model': m['model'], 'answers': c['answers'] if not nested else m['answers'], 'exprs': m['exprs'],
         'globals': m['globals'], 'debug': c.get('debug', False), 'has_log': True, 'has_fetch': True,
         'faults': c.get('faults', []) if not nested else [], 'files': {}}
    return p


# --------------------------------------------------------------------------------------------
# model objects with aliasing
# --------------------------------------------------------------------------------------------
def build_models(plan):
    """Python model objects from the JSON plan; equal sub-objects become ONE object where the
    alias mode says so (also across models)."""
    mode = plan.get('alias_mode', 'none')
    pool = {}

    def intern(obj, kind):
        if isinstance(obj, dict):
            new = {k: intern(v, 'expr' if k in ('expr', 'left', 'right', 'args') else kind) for k, v in obj.items()}
            is_stmt = len(new) == 1 and next(iter(new)) in ('expr', 'jump', 'label', 'return', 'function', 'include') \
                and kind == 'stmt'
            share = mode == 'all' or (mode == 'statements' and is_stmt) or (mode == 'expressions' and not is_stmt)
            if share:
                key = repr(new)
                if key in pool:
                    return pool[key]
                pool[key] = new
            return new
        if isinstance(obj, list):
            return [intern(v, kind) for v in obj]
        return obj

    models = []
    for m in plan['models']:
        stmts = copy.deepcopy(m['model'])
        models.append({'statements': [intern(st, 'stmt') for st in stmts]})
    return models


def alias_signature(obj):
    """Structure of object identities: for each visited container, the index of its first visit."""
    seen = {}
    sig = []

    def walk(o):
        if isinstance(o, (dict, list)):
            if id(o) in seen:
                sig.append(('ref', seen[id(o)]))
                return
            seen[id(o)] = len(seen)
            sig.append(('new', type(o).__name__, len(o)))
            for v in (o.values() if isinstance(o, dict) else o):
                walk(v)
    walk(obj)
    return sig


# --------------------------------------------------------------------------------------------
# run
# --------------------------------------------------------------------------------------------
class ClientRun:
    def __init__(self):
        self.outcome = None
        self.crashed = False
        self.events = None
        self.nested = []


def run(plan, stats):
    viols = []
    if any(m.get('source') is not None for m in plan['models']):
        from bare_script import parse_script, BareScriptParserError
        plan = dict(plan)
        plan['models'] = [dict(m) for m in plan['models']]
        for m in plan['models']:
            if m.get('source') is not None:
                try:
                    m['model'] = parse_script(m['source'])['statements']
                except BareScriptParserError:
                    return RunResult([], digest_of('invalid-source'))
                stats.probes['model_parsed_from_structured_source'] += 1
    models = build_models(plan)
    snapshots = copy.deepcopy([m for m in models])
    snap_alias = [alias_signature(m) for m in models]
    rng = stream(plan.get('seed', 0), 'schedule')
    immut = {'bad': None}

    def on_step(sched_, task):
        if immut['bad'] is None:
            for ix, m in enumerate(models):
                if m != snapshots[ix]:
                    immut['bad'] = (ix, sched_.seq, task.name)
                    sched_.abandon = True
                    break

    sched = Scheduler(rng, max_events=60000, on_step=on_step, policy=plan.get('policy', 'random'))
    if plan.get('schedule') is not None:
        sched.forced = plan['schedule']
    runs = []

    def make_client(ci, c):
        cr = ClientRun()
        p = client_plan(plan, c)
        env = Env(p, 'real')

        def body(task):
            if c.get('crash_at') is not None:
                task.crash_at = c['crash_at']

            def hook(opts, value, starts):
                if task.events > TASK_EVENT_CAP:
                    raise SimWatchdog(f'client produced more than {TASK_EVENT_CAP} seam events')
                sched.event(task, 'stmt', starts)
                if c.get('stall') and task.events == c['stall'][0]:
                    task.stall = c['stall'][1]
                    stats.faults['stall'] += 1

            def on_event(ev):
                if task.events > TASK_EVENT_CAP:
                    raise SimWatchdog(f'client produced more than {TASK_EVENT_CAP} seam events')
                sched.event(task, ev[0], None)

            if c.get('reenter_at') is not None:
                tick_n = [0]
                orig_host = env.host

                def host(name, args, invoke, ctx=None):
                    if name == 'hostTick':
                        tick_n[0] += 1
                        if tick_n[0] == c['reenter_at']:
                            stats.faults['host_reenter'] += 1
                            np_ = client_plan(plan, c, nested=True)
                            nout = run_real(np_, limit=150, sim_options=True,
                                            hook=lambda o, v, s: sched.event(task, 'stmt-nested', s),
                                            model=models[c['reenter_model']], max_starts=MAX_STARTS)
                            cr.nested.append(nout)
                            env.rec('reentered', nested_digest(nout))
                    return orig_host(name, args, invoke, ctx)
                env.host = host
            try:
                lim = c.get('limit', c.get('auto_limit', 0))
                cr.outcome = run_real(p, limit=lim, sim_options=True, hook=hook, env=env,
                                      on_event=on_event, model=models[c['model']], max_starts=MAX_STARTS)
            except SimCrash:
                cr.crashed = True
                cr.events = list(env.events)
                stats.faults['crash_at_seam'] += 1
        return cr, body

    # reference runs first (they decide auto limits for clients that would not terminate)
    refs = []
    for ci, c in enumerate(plan['clients']):
        if c.get('dup_of') is not None and not 0 <= c['dup_of'] < ci:
            c.pop('dup_of')
        if not 0 <= c['model'] < len(plan['models']):
            c['model'] = 0
        if c.get('reenter_model') is not None and not 0 <= c['reenter_model'] < len(plan['models']):
            c['reenter_model'] = 0
        src = plan['clients'][c['dup_of']] if c.get('dup_of') is not None else c
        if c.get('dup_of') is not None:
            for k in ('answers', 'faults', 'limit', 'debug', 'model', 'reenter_at', 'reenter_model'):
                if k in src:
                    c[k] = copy.deepcopy(src[k])
                else:
                    c.pop(k, None)
            c.pop('crash_at', None)
            if src.get('crash_at') is not None:
                c['crash_at'] = src['crash_at']
        p = client_plan(plan, c)
        env = Env(p, 'ref')
        if c.get('reenter_at') is not None:
            tick_n = [0]
            orig_host = env.host

            def host(name, args, invoke, ctx=None, _c=c, _env=env, _tick=tick_n, _orig=orig_host):
                if name == 'hostTick':
                    _tick[0] += 1
                    if _tick[0] == _c['reenter_at']:
                        nref = run_ref(client_plan(plan, _c, nested=True), limit=150)
                        if nref.error is not None and nref.error[0] == 'unsupported':
                            from ..refvm import HostFailure
                            raise HostFailure('RefUnsupported', 'nested')
                        _env.rec('reentered', nested_digest(nref))
                return _orig(name, args, invoke, ctx)
            env.host = host
        lim = c.get('limit', 0)
        ref = run_ref(p, limit=lim, cap=CAP if not lim else 0, env=env)
        if ref.error == ('cap',):
            c['auto_limit'] = 120
            env2 = Env(p, 'ref')
            if c.get('reenter_at') is not None:
                refs.append(None)      # keep it simple: nested + non-terminating is skipped
                stats.c['ref_unsupported'] += 1
                continue
            ref = run_ref(p, limit=120, env=env2)
        if ref.error is not None and ref.error[0] == 'unsupported':
            stats.c['ref_unsupported'] += 1
            refs.append(None)
            # the reference cannot say whether this client terminates: bound it by the budget (it is not compared)
            if not c.get('limit'):
                c['auto_limit'] = 150
        else:
            refs.append(ref)

    for ci, c in enumerate(plan['clients']):
        cr, body = make_client(ci, c)
        runs.append(cr)
        sched.add(f'c{ci}', body)
    try:
        sched.run()
    except SimWatchdog:
        pass
    stats.c['scheduler_steps'] += len(sched.choices)
    stats.c['events'] += sched.seq
    stats.distinct['interleavings'].add(sched.interleaving_digest())

    # C08.immutable (checked after every step; final check includes alias structure)
    if immut['bad'] is None:
        for ix, m in enumerate(models):
            if m != snapshots[ix]:
                immut['bad'] = (ix, 'end', None)
            elif alias_signature(m) != snap_alias[ix]:
                immut['bad'] = (ix, 'alias', None)
    if immut['bad'] is not None:
        ix, when, who = immut['bad']
        viols.append(Violation(PROP, 'immutable', 'model-modified-by-execution',
                               {'model': ix, 'first_seen_at_event': when, 'after_step_of': who,
                                'diff': first_diff(snapshots[ix], models[ix])}))

    # C08.refine
    dig = []
    for ci, (c, cr, ref) in enumerate(zip(plan['clients'], runs, refs)):
        stats.c['evaluations'] += 1
        task = sched.tasks[ci]
        if task.error is not None and task.error[0] == 'exception':
            viols.append(Violation(PROP, 'refine', 'client-thread-exception', {'client': ci, 'error': repr(task.error[1])}))
            continue
        if task.error is not None and task.error[0] in ('killed', 'watchdog'):
            if sched.watchdog_tripped:
                stats.c['watchdog_runs'] += 1
            continue
        if cr.crashed:
            evs = norm_events(cr.events)
            dig.append(('crash', evs))
            if ref is not None:
                rev = norm_events(ref.events)
                if evs != rev[:len(evs)]:
                    ix = next((i for i, (a, b) in enumerate(zip(evs, rev)) if a != b), min(len(evs), len(rev)))
                    viols.append(Violation(PROP, 'refine', 'crashed-client-history-not-a-prefix',
                                           {'client': ci, 'at': ix, 'real': evs[ix] if ix < len(evs) else None,
                                            'ref': rev[ix] if ix < len(rev) else None}))
            continue
        out = cr.outcome
        if out is None:
            continue
        stats.faults.update(out.fired)
        dig.append(out.summary())
        if out.error is not None and out.error[0] == 'rt' and out.error[1].startswith('Exceeded maximum'):
            stats.faults['budget_abort'] += 1
        if ref is None:
            continue
        diff = compare_outcomes(out, ref)
        if diff is not None:
            viols.append(Violation(PROP, 'refine', classify(diff, out, ref), {'client': ci, 'diff': diff,
                                                                              'real_error': out.error, 'ref_error': ref.error}))
        else:
            kinds = {e[0] for e in out.events}
            nontrivial = len(out.events) >= 2 and len(sched.tasks) > 1
            if nontrivial:
                fault = 'crash' if c.get('crash_at') else 'limit' if c.get('limit') else 'hostfail' if c.get('faults') \
                    else 'reenter' if c.get('reenter_at') else 'none'
                stats.distinct['nontrivial'].add(digest_of((shape_of(plan['models'][c['model']]['model']), fault,
                                                            out.error[0] if out.error else 'ok', len(out.events),
                                                            sched.interleaving_digest())))
            if 'fail' in kinds:
                stats.probes['contained_host_failure'] += 1
            if out.error is not None and 'Unknown jump label' in str(out.error):
                stats.probes['unknown_jump_label'] += 1
    # C08.repeat
    for ci, c in enumerate(plan['clients']):
        if c.get('dup_of') is not None:
            a, b = runs[ci], runs[c['dup_of']]
            if a.outcome is not None and b.outcome is not None and \
                    not any(o.error is not None and o.error[0] == 'watchdog' for o in (a.outcome, b.outcome)):
                stats.probes['duplicate_client_pairs'] += 1
                if a.outcome.summary() != b.outcome.summary():
                    viols.append(Violation(PROP, 'repeat', 'identical-clients-differ', {'clients': [ci, c['dup_of']]}))
    # restart: every model once more, fault free, fresh client, after everything else
    if not viols:
        for mi, m in enumerate(plan['models']):
            c = {'model': mi, 'answers': m['answers'], 'faults': [], 'debug': False}
            p = client_plan(plan, c)
            ref = run_ref(p, limit=0, cap=CAP)
            if ref.error is not None and ref.error[0] in ('unsupported',):
                continue
            lim = 0
            if ref.error == ('cap',):
                lim = 120
                ref = run_ref(p, limit=lim)
            real = run_real(p, limit=lim, sim_options=True, model=models[mi], max_starts=MAX_STARTS)
            stats.c['evaluations'] += 1
            stats.c['restart_runs'] += 1
            dig.append(real.summary())
            diff = compare_outcomes(real, ref)
            if diff is not None:
                viols.append(Violation(PROP, 'refine', 'restart:' + classify(diff, real, ref),
                                       {'model': mi, 'diff': diff, 'real_error': real.error, 'ref_error': ref.error}))
            # the same model executed again by an embedder that re-uses its options object (under a finite budget the
            # run fits in): identical results for identical globals
            if diff is None and real.error is None and real.count and plan.get('seed', 0) % 2 == 0:
                lim2 = real.count + 2
                first = run_real(p, limit=lim2, sim_options=True, model=models[mi], max_starts=MAX_STARTS)
                second = run_real(p, limit=lim2, sim_options=True, model=models[mi], max_starts=MAX_STARTS,
                                  reuse_options=first.extra['options'])
                stats.c['evaluations'] += 2
                stats.probes['options_object_reused_for_a_second_execution'] += 1
                dig.append(second.summary())
                if first.summary() == real.summary() and second.summary() != first.summary():
                    viols.append(Violation(PROP, 'repeat', 'second-execution-with-reused-options-differs',
                                           {'model': mi, 'limit': lim2, 'statements': real.count,
                                            'second_error': second.error}))
            if models[mi] != snapshots[mi] and immut['bad'] is None:
                viols.append(Violation(PROP, 'immutable', 'model-modified-by-execution', {'model': mi, 'when': 'restart'}))
    # churn phase: short-lived models one after another in this process (references first, so that nothing but the
    # real runs happens between dropping one model and building the next)
    if not viols and plan.get('churn'):
        ch = plan['churn']
        todo = []
        for ix, stmts in enumerate(ch['models']):
            p = {'model': stmts, 'answers': ch['answers'], 'exprs': {}, 'globals': {}, 'debug': False, 'has_log': True,
                 'has_fetch': True, 'faults': [], 'files': {}}
            ref = run_ref(p, limit=0, cap=CAP)
            lim = 0
            if ref.error == ('cap',):
                lim = 120
                ref = run_ref(p, limit=lim)
            if ref.error is not None and ref.error[0] == 'unsupported':
                continue
            # … and its owner may edit the model object in place between two executions (a statement replaced by a label)
            edit = None
            erng = stream(plan.get('seed', 0), f'churn-edit:{ix}')
            if stmts and erng.random() < 0.5:
                from .. import ir as _ir
                at, name = erng.randrange(len(stmts)), erng.choice(['A', 'B'])
                p2 = dict(p)
                p2['model'] = copy.deepcopy(stmts)
                p2['model'][at] = _ir.st_label(name)
                ref2 = run_ref(p2, limit=lim or 0, cap=CAP if not lim else 0)
                if ref2.error is None or ref2.error[0] not in ('unsupported', 'cap'):
                    edit = (at, name, p2, ref2)
            todo.append((ix, p, lim, ref, edit))
        for ix, p, lim, ref, edit in todo:
            fresh = {'statements': copy.deepcopy(p['model'])}
            real = run_real(p, limit=lim, sim_options=True, model=fresh, max_starts=MAX_STARTS)
            stats.c['evaluations'] += 1
            stats.c['churn_runs'] += 1
            dig.append(real.summary())
            diff = compare_outcomes(real, ref)
            what = 'short-lived-model:'
            if diff is None and edit is not None:
                at, name, p2, ref = edit
                from .. import ir as _ir
                fresh['statements'][at] = _ir.st_label(name)
                real = run_real(p2, limit=lim, sim_options=True, model=fresh, max_starts=MAX_STARTS)
                stats.c['evaluations'] += 1
                stats.probes['model_edited_in_place_by_its_owner_between_executions'] += 1
                dig.append(real.summary())
                diff = compare_outcomes(real, ref)
                what = 'model-edited-in-place-between-executions:'
            del fresh
            if diff is not None:
                viols.append(Violation(PROP, 'refine', what + classify(diff, real, ref),
                                       {'churn_index': ix, 'diff': diff, 'real_error': real.error, 'ref_error': ref.error}))
                break
        stats.probes['sequence_of_short_lived_models'] += 1
    # executions WITHOUT an options argument (and with an empty one): each starts from nothing — a model that reads a
    # global it sets itself must see it unset every time
    if not viols and plan.get('seed', 0) % 5 == 0:
        from bare_script import execute_script as _exec
        from .. import ir as _ir
        name = 'nOpt%d' % (plan.get('seed', 0) % 3)
        probe = [_ir.st_jump('seen', _ir.call('systemGlobalGet', _ir.s(name))),
                 _ir.st_expr(_ir.num(1), name),
                 _ir.st_function('fnOpt', [], [_ir.st_return(_ir.s('bound'))]),
                 _ir.st_return(_ir.s('first')),
                 _ir.st_label('seen'),
                 _ir.st_return(_ir.s('again'))]
        seen = []
        for how in ('omitted', 'omitted', 'none', 'empty', 'omitted'):
            m = {'statements': copy.deepcopy(probe)}
            try:
                seen.append(_exec(m) if how == 'omitted' else _exec(m, None) if how == 'none' else _exec(m, {}))
            except Exception as exc:  # pylint: disable=broad-except
                seen.append(f'{type(exc).__name__}: {exc}')
        stats.c['evaluations'] += len(seen)
        stats.probes['executions_without_options'] += 1
        dig.append(seen)
        if seen != ['first'] * 5:
            viols.append(Violation(PROP, 'repeat', 'execution-without-options-sees-an-earlier-execution',
                                   {'results': seen, 'expected': ['first'] * 5}))
    sample = None
    if plan.get('seed', 0) % 41 == 1:
        from .. import ir
        sample = {'seed': plan.get('seed'), 'models': [ir.render_statements(m['model'])[:25] for m in plan['models']],
                  'clients': [{k: v for k, v in c.items() if k != 'answers'} for c in plan['clients']],
                  'schedule_prefix': sched.choices[:40]}
    return RunResult(viols, digest_of((dig, sched.choices, [h[1:3] for h in sched.history])), sample)


def nested_digest(out):
    return digest_of((out.result, out.error, norm_events(out.events), out.globals))


def classify(diff, real, ref):
    kind = diff[0]
    rerr = real.error[1] if real.error and len(real.error) > 1 else ''
    ferr = ref.error[1] if ref.error and len(ref.error) > 1 else ''
    if 'Unknown jump label' in str(rerr) or 'Unknown jump label' in str(ferr):
        return 'jump-label-resolution'
    if real.error is not None and real.error[0] == 'host':
        return 'host-exception-escaped:' + real.error[1]
    if kind in ('event', 'event-count'):
        return 'history-differs'
    return kind + '-differs'


def shape_of(stmts):
    out = []
    for st in stmts:
        (k, v), = st.items()
        out.append((k, shape_of(v['statements'])) if k == 'function' else k)
    return out


def first_diff(a, b, path='$'):
    if type(a) is not type(b):
        return f'{path}: type {type(a).__name__} -> {type(b).__name__}'
    if isinstance(a, dict):
        for k in list(a.keys()) + [k for k in b if k not in a]:
            if k not in b:
                return f'{path}.{k}: removed'
            if k not in a:
                return f'{path}.{k}: added ({b[k]!r:.80})'
            d = first_diff(a[k], b[k], f'{path}.{k}')
            if d:
                return d
        return None
    if isinstance(a, list):
        if len(a) != len(b):
            return f'{path}: length {len(a)} -> {len(b)}'
        for i, (x, y) in enumerate(zip(a, b)):
            d = first_diff(x, y, f'{path}[{i}]')
            if d:
                return d
        return None
    return None if a == b else f'{path}: {a!r:.60} -> {b!r:.60}'


def reducible(plan):
    out = [plan['clients']]
    for c in plan['clients']:
        out.append(c.get('faults', []))
    if plan.get('churn'):
        out.append(plan['churn']['models'])
    return out


def simplify(plan, v):
    out = []
    if plan.get('alias_mode') != 'none':
        c = copy.deepcopy(plan)
        c['alias_mode'] = 'none'
        out.append(c)
    if plan.get('policy') != 'lowest':
        c = copy.deepcopy(plan)
        c['policy'] = 'lowest'
        out.append(c)
    for ci, cl in enumerate(plan['clients']):
        for key in ('crash_at', 'limit', 'reenter_at', 'stall', 'dup_of'):
            if cl.get(key) is not None:
                c = copy.deepcopy(plan)
                c['clients'][ci].pop(key)
                out.append(c)
    return out


def simulated_time(total):
    return {'unit': 'scheduler steps (seam events at which the simulator chose who runs)',
            'value': int(total.c.get('scheduler_steps', 0))}
