"""C10 — source layout does not change the parsed program; the parser keeps no state.

parse_script reads from an iterable: a reader seam. Generated programs (and every shipped .bare
file) are rewritten by a layout plan (LF/CRLF, blank and comment lines anywhere including inside
continued lines, indentation, trailing whitespace, continuation breaks at legal gaps), cut into
chunks at line boundaries and served by reader generators to 2-4 parser clients that run
concurrently: every next() on a reader is a seam event at which the seeded scheduler lets other
parses start, proceed and finish. Some clients are aborted by a raising reader and restarted; some
parse texts that fail (syntax error, dangling continuation) in between.
"""
import copy
import os

from .. import gen_source, reflines
from ..core import Stats, Violation, stream, digest_of, Scheduler, SimWatchdog
from ..driver import RunResult

PROP = 'C10'
LEVEL = 'exploration'
ISOLATE = True
RULE = ('seeded (program, layout, chunking, interleaving) tuples over generated structured programs and all shipped '
        'include/*.bare files; one evaluation = one parse by one client compared with the canonical parse; '
        'non-trivial = the layout contains at least one continuation break or an inserted comment inside a continued '
        'line, and at least one other client step happened while this client was reading; distinct by '
        'digest(program, layout, chunking, interleaving)')
COMPONENTS = {
    'real': ['bare_script.parser.parse_script (line splitting, comment skipping, continuation joining, all statement '
             'regexes)', 'bare_script.parser.parse_expression', 'shipped bare_script/include/*.bare texts'],
    'stub': ['reader generators feeding parse_script', 'client threads scheduled by the simulator'],
}
ASSUMPTIONS = [
    'continuation breaks are placed where the canonical text has exactly one space outside string literals and '
    'bracket variables, and at the zero-width gaps where the grammar allows white space (before a comma, inside '
    'parentheses, before the colon of an if/elif/while/for header, after a unary operator)',
    'chunks are cut at line boundaries (the property quantifies over those)',
    'pre-emption happens at reader next() calls; the parse phase after the last chunk is atomic',
]

_SHIPPED = None


def shipped():
    global _SHIPPED
    if _SHIPPED is None:
        import bare_script
        base = os.path.join(os.path.dirname(bare_script.__file__), 'include')
        out = []
        for name in sorted(os.listdir(base)):
            if name.endswith('.bare'):
                with open(os.path.join(base, name), encoding='utf-8') as fh:
                    out.append((name, fh.read()))
        _SHIPPED = out
    return _SHIPPED


def budget(tier):
    if tier == 'thorough':
        return {'seeds': 300000, 'chunk': 300, 'wall_cap': 1200, 'extra': {'big': True}}
    return {'seeds': 12000, 'chunk': 100, 'wall_cap': 240, 'extra': None}


def gen(seed, tier, extra=None):
    rng = stream(seed, 'plan')
    big = bool((extra or {}).get('big'))
    plan = {'seed': seed, 'programs': [], 'clients': []}
    n_prog = rng.choice([1, 1, 2])
    for _ in range(n_prog):
        if rng.random() < 0.06:
            plan['programs'].append({'shipped': rng.randrange(len(shipped()))})
        else:
            g = gen_source.SourceGen(rng, max_depth=rng.choice([2, 3, 5]), size=rng.choice([3, 6, 12, 20] if not big else [6, 12, 30, 60]),
                                     long_lines=rng.choice([0.0, 0.0, 0.1]))
            plan['programs'].append({'lines': g.program()})
    n_clients = rng.randint(2, 4)
    for ci in range(n_clients):
        c = {'kind': 'script', 'prog': rng.randrange(n_prog), 'layout_seed': rng.randrange(1 << 30),
             'p_insert': rng.choice([0.0, 0.3, 0.3, 0.5]), 'p_break': rng.choice([0.0, 0.2, 0.5, 0.9]),
             'n_chunks': rng.randint(1, 7), 'as_string': rng.random() < 0.15}
        k = rng.random()
        if k < 0.25:
            c['abort_after'] = rng.randint(0, 4)     # reader raises after this many chunks, then the client restarts
        elif k < 0.35:
            c['kind'] = 'bad'                        # a text that fails to parse, then the real text
            c['bad'] = rng.choice(['x = (1 +', 'if x:', 'y = fnA(1, \\', 'while true:\nz = 1', 'endif', 'zz = 1 \\\\'])
        elif k < 0.40:
            c['kind'] = 'stress'                     # many failing parses first (hidden state that accumulates)
            c['stress'] = rng.choice([20, 60, 150, 400])
            c['stress_seed'] = rng.randrange(1 << 30)
        elif k < 0.46:
            c['kind'] = 'expr'
            g2 = gen_source.SourceGen(rng)
            c['text'] = g2.expr()
        plan['clients'].append(c)
    plan['policy'] = rng.choice(['random', 'random', 'lowest'])
    return plan


# --------------------------------------------------------------------------------------------
# layout
# --------------------------------------------------------------------------------------------
COMMENTS = ['# note', '#', '  # indented comment', '# trailing backslash \\', '#x = 1', '\t# tab', '# lone\rcarriage return',
            '# x = 1\ry = 2']
BLANKS = ['', '   ', '\t']


def lay_out(lines, c, shipped_text=False):
    """Physical lines [(text, eol)] of a layout of the canonical logical `lines`."""
    rng = stream(c['layout_seed'], 'layout')
    eol_mode = rng.choice(['LF', 'CRLF', 'mixed'])
    phys = []
    stats = {'breaks': 0, 'inserts_inside': 0, 'inserts': 0}

    def eol():
        if eol_mode == 'mixed':
            return rng.choice(['\n', '\r\n'])
        return '\n' if eol_mode == 'LF' else '\r\n'

    def maybe_insert(inside):
        while rng.random() < c['p_insert']:
            text = rng.choice(COMMENTS + BLANKS)
            phys.append((text, eol()))
            stats['inserts'] += 1
            if inside:
                stats['inserts_inside'] += 1

    for line in lines:
        maybe_insert(False)
        if shipped_text:
            phys.append((line + rng.choice(['', '', ' ', '\t']), eol()))
            continue
        gaps = gen_source.break_positions(line)
        cuts = [(g, 1) for g in gaps if rng.random() < c['p_break'] * 0.5]
        # … and at the zero-width gaps where the grammar allows white space (before a comma, inside parentheses,
        # before a header's colon, after a unary operator): the join writes a space where the canonical text has none
        cuts += [(g, 0) for g in gen_source.zero_gap_positions(line) if rng.random() < c['p_break'] * 0.25]
        cuts.sort()
        parts = []
        prev = 0
        for g, width in cuts:
            parts.append(line[prev:g])
            prev = g + width
        parts.append(line[prev:])
        for pi, part in enumerate(parts):
            indent = rng.choice(['', '', '  ', '    ', '\t', ' \t '])
            trail = rng.choice(['', '', ' ', '\t', '  ', ' \r'])
            if trail.endswith('\r') and c.get('no_cr_trail'):
                trail = ' '     # (C06 compares line TEXTS across delivery modes; a CR before the line end would be
                                #  consumed with the LF in one mode and kept in the other)
            if pi < len(parts) - 1:
                text = indent + part + rng.choice([' ', '', '  ', '\t']) + '\\' + trail
                stats['breaks'] += 1
            else:
                text = indent + part + trail
            phys.append((text, eol()))
            if pi < len(parts) - 1:
                maybe_insert(True)
    maybe_insert(False)
    return phys, stats


def chunk_up(phys, c):
    """Cut at line boundaries into <= n_chunks chunks; a chunk may or may not keep its final newline."""
    rng = stream(c['layout_seed'], 'chunks')
    n = len(phys)
    k = min(c['n_chunks'], max(1, n))
    cuts = sorted(rng.sample(range(1, n), k - 1)) if n > 1 and k > 1 else []
    chunks = []
    prev = 0
    for cut in cuts + [n]:
        seg = phys[prev:cut]
        prev = cut
        text = ''.join(t + e for t, e in seg[:-1])
        last_t, last_e = seg[-1]
        keep_nl = rng.random() < 0.6
        text += last_t + (last_e if keep_nl else '')
        chunks.append(text)
    return chunks


def program_lines(plan, pi):
    p = plan['programs'][pi]
    if 'shipped' in p:
        name, text = shipped()[p['shipped'] % len(shipped())]
        return reflines.physical_lines(text), True
    return p['lines'], False


# --------------------------------------------------------------------------------------------
# run
# --------------------------------------------------------------------------------------------
class ReaderAbort(Exception):
    pass


def disjoint_containers(a, b):
    ids = set()

    def walk(o, acc):
        if isinstance(o, (dict, list)):
            acc.add(id(o))
            for v in (o.values() if isinstance(o, dict) else o):
                walk(v, acc)
    ia, ib = set(), set()
    walk(a, ia)
    walk(b, ib)
    return not ia & ib


def run(plan, stats):
    from bare_script import parse_script, parse_expression, BareScriptParserError
    viols = []
    # canonical models first (pristine process state: runs are forked)
    canon_models = []
    for pi in range(len(plan['programs'])):
        lines, _is_shipped = program_lines(plan, pi)
        try:
            canon_models.append(parse_script('\n'.join(lines) + '\n'))
        except BareScriptParserError:
            stats.c['generated_program_rejected_by_the_parser'] += 1
            return RunResult([], digest_of('invalid-program'))
    canon_exprs = {}
    for c in plan['clients']:
        if c['kind'] == 'expr':
            try:
                canon_exprs[c['text']] = parse_expression(c['text'])
            except BareScriptParserError:
                canon_exprs[c['text']] = None
    snap_models = copy.deepcopy(canon_models)

    rng = stream(plan.get('seed', 0), 'schedule')
    sched = Scheduler(rng, max_events=5000, policy=plan.get('policy', 'random'))
    results = [None] * len(plan['clients'])
    reader_bad = []
    lay_stats = []

    def make_reader(task, chunks, abort_after, log):
        served = [0]
        exhausted = [False]

        def reader():
            for ix, ch in enumerate(chunks):
                sched.event(task, 'next', ix)
                if abort_after is not None and ix >= abort_after:
                    stats.faults['reader_raise'] += 1
                    raise ReaderAbort(f'reader failed after {ix} chunks')
                served[0] += 1
                log.append(ix)
                yield ch
            sched.event(task, 'eof', None)
            exhausted[0] = True
        return reader()

    def make_client(ci, c):
        def body(task):
            if c['kind'] == 'expr':
                sched.event(task, 'expr', None)
                try:
                    results[ci] = ('expr', parse_expression(c['text']))
                except BareScriptParserError:
                    results[ci] = ('expr', None)
                return
            lines, is_shipped = program_lines(plan, c['prog'])
            phys, lstat = lay_out(lines, c, is_shipped)
            lay_stats.append(lstat)
            chunks = chunk_up(phys, c)
            if c['kind'] == 'bad':
                log0 = []
                try:
                    parse_script(make_reader(task, [c['bad'] + '\n'], None, log0))
                    stats.probes['bad_text_accepted'] += 1
                except BareScriptParserError:
                    stats.probes['parser_error_between_parses'] += 1
            if c['kind'] == 'stress':
                srng = stream(c['stress_seed'], 'stress')
                bad_texts = ['x = ((((((((1 +', 'fnA(1, (2, ((3', 'y = fnB(fnA(fnB(fnA(', '((((', 'if (((a:', 'z = (1 + (2 * (3 - ',
                             'while fnA((1:', 'return ((', "w = arrayNew((('a'", 'jumpif ((x) lab', 'for v in ((arr:', 'a = (b))']
                for _ in range(c['stress']):
                    t = srng.choice(bad_texts)
                    try:
                        if srng.random() < 0.5:
                            parse_script(t + '\n')
                        else:
                            parse_expression(t.split('=', 1)[-1])
                    except BareScriptParserError:
                        pass
                stats.probes['stress_failing_parses_before_real_parse'] += 1
                sched.event(task, 'stress-done', None)
            if c.get('abort_after') is not None:
                log1 = []
                try:
                    parse_script(make_reader(task, chunks, min(c['abort_after'], len(chunks) - 1), log1))
                    results[ci] = ('abort-not-propagated', None)
                    return
                except ReaderAbort:
                    pass
                except BaseException as exc:  # pylint: disable=broad-except
                    if type(exc).__name__ in ('SimKill', 'SimCrash', 'SimWatchdog'):
                        raise
                    results[ci] = ('abort-changed', f'{type(exc).__name__}: {exc}')
                    return
            log = []
            if c.get('as_string'):
                sched.event(task, 'string', None)
                text = ''.join(t + e for t, e in phys)
                model = parse_script(text)
            else:
                model = parse_script(make_reader(task, chunks, None, log))
                if log != list(range(len(chunks))):
                    reader_bad.append((ci, log, len(chunks)))
            results[ci] = ('script', model, phys)
        return body

    for ci, c in enumerate(plan['clients']):
        sched.add(f'p{ci}', make_client(ci, c))
    try:
        sched.run()
    except SimWatchdog:
        pass
    stats.c['scheduler_steps'] += len(sched.choices)
    stats.distinct['interleavings'].add(sched.interleaving_digest())

    dig = []
    for ci, c in enumerate(plan['clients']):
        task = sched.tasks[ci]
        stats.c['evaluations'] += 1
        if task.error is not None:
            kind, err = task.error
            if kind == 'exception':
                name = type(err).__name__
                if name == 'BareScriptParserError':
                    what = 'layout-variant-rejected'
                    if reflines.squash(getattr(err, 'line', '') or '') == 'return':
                        what = 'bare-return-with-trailing-whitespace-rejected'
                    viols.append(Violation(PROP, 'same', what,
                                           {'client': ci, 'error': str(err)[:300], 'layout': describe(plan, c)}))
                else:
                    viols.append(Violation(PROP, 'same', f'parser-raised:{name}', {'client': ci, 'error': str(err)[:300]}))
            continue
        res = results[ci]
        if res is None:
            continue
        if res[0] == 'abort-not-propagated':
            viols.append(Violation(PROP, 'reader', 'reader-exception-swallowed', {'client': ci}))
            continue
        if res[0] == 'abort-changed':
            viols.append(Violation(PROP, 'reader', 'reader-exception-changed', {'client': ci, 'got': res[1]}))
            continue
        if res[0] == 'expr':
            dig.append(res[1])
            if res[1] != canon_exprs[c['text']]:
                viols.append(Violation(PROP, 'stateless', 'parse_expression-result-depends-on-history',
                                       {'client': ci, 'text': c['text']}))
            continue
        model = res[1]
        dig.append(model)
        if model != canon_models[c['prog']]:
            from .c08 import first_diff
            viols.append(Violation(PROP, 'same', classify(plan, c, sched),
                                   {'client': ci, 'diff': first_diff(canon_models[c['prog']], model),
                                    'layout': describe(plan, c)}))
            continue
        if not disjoint_containers(model, canon_models[c['prog']]):
            viols.append(Violation(PROP, 'stateless', 'results-share-objects', {'client': ci}))
            continue
        for cj in range(ci):
            rj = results[cj]
            if rj is not None and rj[0] == 'script' and not disjoint_containers(model, rj[1]):
                viols.append(Violation(PROP, 'stateless', 'results-share-objects', {'clients': [cj, ci]}))
                break
    for ci, log, n in reader_bad:
        viols.append(Violation(PROP, 'reader', 'chunks-not-consumed-once-in-order', {'client': ci, 'log': log[:10], 'chunks': n}))
    if canon_models != snap_models:
        viols.append(Violation(PROP, 'stateless', 'earlier-result-modified-by-later-parse', {}))
    # mutate one result, parse again: must still equal the snapshot
    if not viols and canon_models:
        canon_models[0]['statements'].append({'label': 'mutated'})
        if canon_models[0]['statements'] and 'expr' in canon_models[0]['statements'][0]:
            canon_models[0]['statements'][0]['expr']['expr'] = {'number': 12345.0}
        lines, _ = program_lines(plan, 0)
        again = parse_script('\n'.join(lines) + '\n')
        stats.c['evaluations'] += 1
        if again != snap_models[0]:
            viols.append(Violation(PROP, 'stateless', 'parse-after-mutating-a-result-differs', {}))
    inside = sum(s['inserts_inside'] for s in lay_stats)
    breaks = sum(s['breaks'] for s in lay_stats)
    if breaks:
        stats.probes['layouts_with_continuation_breaks'] += 1
    if inside:
        stats.probes['comment_or_blank_inside_continued_line'] += 1
    overlapped = len(set(sched.choices)) > 1 and any(sched.choices[i] != sched.choices[i + 1] for i in range(len(sched.choices) - 1))
    if overlapped:
        stats.probes['overlapping_parses'] += 1
    if (breaks or inside) and overlapped and not viols:
        stats.distinct['nontrivial'].add(digest_of((plan['programs'], [(c.get('layout_seed'), c.get('n_chunks')) for c in plan['clients']],
                                                    sched.interleaving_digest())))
    if any('shipped' in p for p in plan['programs']):
        stats.probes['shipped_bare_file'] += 1
    sample = None
    if plan.get('seed', 0) % 53 == 1 and lay_stats and breaks:
        c0 = next(c for c in plan['clients'] if c['kind'] != 'expr')
        lines, sh = program_lines(plan, c0['prog'])
        phys, _ = lay_out(lines, c0, sh)
        sample = {'seed': plan.get('seed'), 'canonical': lines[:12], 'laid_out': [t + ('\\r' if e == '\r\n' else '') for t, e in phys[:24]],
                  'chunks': c0['n_chunks'], 'schedule_prefix': sched.choices[:30]}
    return RunResult(viols, digest_of((dig, sched.choices)), sample)


def describe(plan, c):
    return {k: c.get(k) for k in ('prog', 'layout_seed', 'p_insert', 'p_break', 'n_chunks', 'as_string', 'abort_after', 'kind')}


def classify(plan, c, sched):
    overl = any(sched.choices[i] != sched.choices[i + 1] for i in range(len(sched.choices) - 1))
    lines, sh = program_lines(plan, c['prog'])
    _phys, lstat = lay_out(lines, c, sh)
    if lstat['breaks'] == 0 and lstat['inserts'] == 0 and len(plan['clients']) > 1 and overl:
        return 'model-differs:plain-layout-under-overlapping-parses'
    if lstat['inserts_inside']:
        return 'model-differs:comment-inside-continued-line'
    if lstat['breaks']:
        return 'model-differs:continuation-break'
    if lstat['inserts']:
        return 'model-differs:inserted-comment-or-blank-line'
    return 'model-differs:line-ends-indent-or-chunking'


def reducible(plan):
    out = [plan['clients']]
    for p in plan['programs']:
        if 'lines' in p:
            out.append(p['lines'])
    return out


def simplify(plan, v):
    out = []
    for ci, c in enumerate(plan['clients']):
        for key, val in (('p_insert', 0.0), ('p_break', 0.0), ('n_chunks', 1)):
            if c.get(key) not in (None, val):
                n = copy.deepcopy(plan)
                n['clients'][ci][key] = val
                out.append(n)
        if c.get('kind') == 'stress' and c.get('stress', 0) > 20:
            n = copy.deepcopy(plan)
            n['clients'][ci]['stress'] = max(20, c['stress'] // 2)
            out.append(n)
        for key in ('abort_after',):
            if c.get(key) is not None:
                n = copy.deepcopy(plan)
                n['clients'][ci].pop(key)
                out.append(n)
    if plan.get('policy') != 'lowest':
        n = copy.deepcopy(plan)
        n['policy'] = 'lowest'
        out.append(n)
    return out


def fixup(plan):
    for c in plan['clients']:
        if c.get('prog', 0) >= len(plan['programs']):
            c['prog'] = 0


def simulated_time(total):
    return {'unit': 'scheduler steps (reader next() calls at which the simulator chose who runs)',
            'value': int(total.c.get('scheduler_steps', 0))}
