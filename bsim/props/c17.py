"""C17 — includes resolve relative to the including file and run in global scope.

All I/O of the runtime goes through fetchFn; the history of fetches IS the observable. Include trees
(depth <= 4, fan-out <= 3, path and URL bases, relative / absolute / URL / system references, merged
adjacent includes, missing and broken files, files that return early or define functions used later,
systemFetch probes that expose the current resolution base) are served by a simulated file system
with fault injection (missing, raising, None, torn reads, absent fetchFn), through two entry points:
the embedding API (execute_script + urlFn) and the real CLI (bare.main with open/fetch_http rebound to
the same VFS). Oracle: RefVM + RefResolve.
"""
import contextlib
import copy
import io
import os

from .. import gen_exec, ir, interloper
from .. import resolve as R
from ..core import Stats, Violation, stream, digest_of
from ..driver import RunResult
from ..env import Env
from ..realrun import run_real, run_ref, compare_outcomes, norm_events, interloper_probe

PROP = 'C17'
LEVEL = 'exploration'
RULE = ('seeded generation of include trees over a simulated file system (both base kinds, all reference kinds, '
        'fetch faults) executed through execute_script or bare.main; one evaluation = one execution compared with '
        'RefVM/RefResolve; non-trivial = at least one include was fetched at depth >= 2 or a fetch fault fired; '
        'distinct by digest(tree shape, base kind, reference kinds, fault kinds, outcome class)')
COMPONENTS = {
    'real': ['bare_script.runtime include execution', 'bare_script.options.url_file_relative',
             'bare_script.options.fetch_read_write (CLI family)', 'bare_script.bare.main and _fetch_include (CLI family)',
             'bare_script.parser (included texts)', 'bare_script.model.lint_script (debug include path)',
             'packaged bare_script/include/*.bare via importlib.resources (CLI -m / system includes)'],
    'stub': ['fetchFn / builtins.open / fetch_http -> simulated file system (VFS)', 'logFn / stdout recorder',
             'host functions', 'options (SimOptions seam)'],
    'never_executed': ['bare_script.options.fetch_http (sealed sandbox; rebound to the VFS)'],
}
ASSUMPTIONS = [
    'RefResolve encodes resolution as the property states it; locations are compared modulo ./.. and duplicate slashes',
    'a system reference is resolved against the configured prefix exactly as a reference is resolved against a file '
    'location (url_file_relative): prefixes with and without a final separator and the empty prefix are all generated',
    'torn reads cut at top-level statement boundaries (byte-level cuts are exercised under C06)',
]


def budget(tier):
    if tier == 'thorough':
        return {'seeds': 3500000, 'chunk': 2000, 'wall_cap': 1200, 'extra': {'big': True}}
    return {'seeds': 80000, 'chunk': 500, 'wall_cap': 240, 'extra': None}


def gen(seed, tier, extra=None):
    rng = stream(seed, 'plan')
    if rng.random() < 0.2:
        return gen_cli(seed, rng)
    knobs = {'include': True, 'callbacks': False, 'data': False, 'p_nonterm': 0.0, 'raw_jumps': 0.0,
             'max_top': rng.choice([4, 8, 12]), 'include_depth': rng.choice([1, 2, 3, 4, 4]), 'fanout': rng.choice([1, 2, 3]),
             'n_funcs': rng.choice([0, 1, 2]), 'max_loop': 2, 'fetch_probes': rng.random() < 0.7,
             'func_includes': rng.random() < 0.3, 'p_broken': rng.choice([0.0, 0.0, 0.1]),
             'fetch_faults': rng.choice([0, 0, 1, 2]), 'early_return': rng.choice([0.05, 0.2]),
             'p_include': rng.choice([0.15, 0.3, 0.5]), 'self_include': rng.choice([0.0, 0.15, 0.3]),
             'odd_names': rng.choice([0.0, 0.0, 0.3]), 'p_funclib': 0.25}
    g = gen_exec.ExecGen(rng, knobs)
    plan = g.gen_plan()
    plan['seed'] = seed
    plan['family'] = 'embed'
    plan['main_from_text'] = rng.random() < 0.4    # the top-level script goes through the real parser too
    ri = stream(seed, 'interloper')
    if ri.random() < 0.3:
        plan['interloper_spec'] = interloper.spec(ri, sites=('fetch', 'fetch', 'hostTick', 'hostNext', 'log'), max_occ=4)
    return plan


def fixup(plan):
    gen_exec.fixup_plan(plan)
    if plan.get('family') == 'cli':
        for sc in plan['scripts']:
            if sc[0] == 'code':
                sc[1] = ir.render(sc[2]) if sc[2] else '\n'


# --------------------------------------------------------------------------------------------
# embedding API family
# --------------------------------------------------------------------------------------------
def ref_kind(plan, url):
    if R.is_url(url):
        return 'absolute-url'
    if url.startswith('/'):
        return 'absolute-path'
    return 'relative'


def run(plan, stats):
    if plan.get('family') == 'cli':
        return run_cli(plan, stats)
    viols = []
    real_model = None
    if plan.get('main_from_text'):
        from bare_script import parse_script, BareScriptParserError
        try:
            real_model = parse_script(ir.render(plan['model']))
        except BareScriptParserError:
            stats.c['generated_program_rejected_by_the_parser'] += 1
            return RunResult([], digest_of('invalid-main'))
        plan = dict(plan)
        plan['model'] = gen_exec.merge_includes(plan['model'])     # the parser merges adjacent include lines
    # baseline: same program, fetch faults off
    base_plan = plan
    if plan.get('fetch_faults'):
        base_plan = dict(plan)
        base_plan['fetch_faults'] = []
    ref_b = run_ref(base_plan, limit=0, cap=3000)
    if ref_b.error is not None and ref_b.error[0] in ('unsupported', 'cap'):
        stats.c['ref_unsupported'] += 1
        return RunResult([], digest_of(('unsupported',)))
    real_b = run_real(base_plan, limit=0, sim_options=True, max_starts=20000, model=copy.deepcopy(real_model))
    stats.c['evaluations'] += 1
    dig = [real_b.summary()]
    diff = compare_outcomes(real_b, ref_b)
    if diff is not None:
        v = attribute(plan, diff, real_b, ref_b, 'fault-free')
        if v is None:
            stats.c['unattributable'] += 1
            stats.notes['unattributable:' + str(diff[0])] += 1
        else:
            viols.append(v)
        return RunResult(viols, digest_of(dig))
    account(plan, stats, real_b, [])
    # nested independent uses of the library (with their own includes and base) inside fetchFn / host / log callbacks
    viols.extend(interloper_probe(base_plan, stats, PROP, real_b,
                                  lambda p: run_real(p, limit=0, sim_options=True, max_starts=20000,
                                                     model=copy.deepcopy(real_model))))
    if viols:
        return RunResult(viols, digest_of(dig))
    if plan.get('fetch_faults'):
        ref_f = run_ref(plan, limit=0, cap=3000)
        real_f = run_real(plan, limit=0, sim_options=True, max_starts=20000, model=copy.deepcopy(real_model))
        stats.c['evaluations'] += 1
        stats.faults.update(real_f.fired)
        dig.append(real_f.summary())
        if not (ref_f.error is not None and ref_f.error[0] in ('unsupported', 'cap')):
            diff = compare_outcomes(real_f, ref_f)
            if diff is not None:
                v = attribute(plan, diff, real_f, ref_f, 'fetch-fault')
                if v is not None:
                    viols.append(v)
                else:
                    viols.append(Violation(PROP, 'errors', 'fault-run-differs-before-any-fetch',
                                           {'diff': diff}))
            else:
                account(plan, stats, real_f, sorted(real_f.fired))
    else:
        stats.faults.update(real_b.fired)
    # the embedder runs the program again with the SAME options object (after a run that failed inside an include, or
    # after any run): resolution in the second run starts from the embedder's own base again
    prev = real_f if plan.get('fetch_faults') else real_b
    if not viols and (prev.error is not None or plan.get('seed', 0) % 4 == 0) and \
            not (prev.error is not None and prev.error[0] == 'watchdog'):
        again = run_real(base_plan, limit=0, sim_options=True, max_starts=20000, model=copy.deepcopy(real_model),
                         reuse_options=prev.extra['options'])
        stats.c['evaluations'] += 1
        stats.probes['options_object_reused_for_a_second_run'] += 1
        if prev.error is not None:
            stats.probes['options_object_reused_after_a_failed_run'] += 1
        dig.append(again.summary())
        diff = None
        if norm_events(again.events) != norm_events(real_b.events):
            diff = 'events'
        elif again.error != real_b.error or again.result != real_b.result:
            diff = ('outcome', again.error, real_b.error)
        elif again.globals != real_b.globals:
            diff = 'globals'
        if diff is not None:
            viols.append(Violation(PROP, 'where', 'second-run-with-reused-options-differs:' +
                                   ('after-failed-run' if prev.error is not None else 'after-completed-run'),
                                   {'diff': diff, 'first_run_error': prev.error,
                                    'fetches_fresh': [e[1] for e in real_b.events if e[0] == 'fetch'][:8],
                                    'fetches_second': [e[1] for e in again.events if e[0] == 'fetch'][:8]}))
    sample = None
    if stats.c['evaluations'] % 211 == 1 and plan.get('files'):
        sample = {'seed': plan.get('seed'), 'url_kind': plan.get('url_kind'), 'system_prefix': plan.get('system_prefix'),
                  'main': ir.render_statements(plan['model'])[:30],
                  'files': {k: v['text'].split('\n')[:8] for k, v in list(plan['files'].items())[:6]},
                  'fetch_sequence': [e[1:] for e in real_b.events if e[0] == 'fetch'][:20]}
    return RunResult(viols, digest_of(dig), sample)


def account(plan, stats, out, fault_kinds):
    fetches = [e for e in out.events if e[0] == 'fetch']
    if not fetches:
        return
    depth2 = any('/lib' in f[1] or 'other' in f[1] for f in fetches) or len(fetches) >= 3
    kinds = sorted({f[2].split(':')[0] for f in fetches})
    if depth2 or fault_kinds:
        base = plan.get('url_kind')
        base_kind = 'none' if base is None else ('identity' if base == 'identity' else
                                                 ('url' if R.is_url(base[1]) else 'path'))
        stats.distinct['nontrivial'].add(digest_of((len(fetches), base_kind, kinds, fault_kinds,
                                                    [f[1].rsplit('/', 1)[-1] for f in fetches][:12],
                                                    out.error[0] if out.error else 'ok')))
    if any(f[2] == 'missing' for f in fetches):
        stats.probes['include_of_missing_file'] += 1
    if out.error is not None and out.error[0] == 'parse':
        stats.probes['broken_included_text'] += 1
    if len(fetches) >= 4:
        stats.probes['four_or_more_fetches'] += 1
    if plan.get('system_prefix') is not None:
        stats.probes['system_prefix_configured'] += 1


def attribute(plan, diff, real, ref, mode):
    """Turn a real/ref difference into a C17 violation, or None when it happened before any fetch
    (then it cannot be about includes: C08's business -> unattributable)."""
    re_, fe = norm_events(real.events), norm_events(ref.events)
    kind = diff[0]
    if ref.error is not None and ref.error[0] == 'parse' and ref.extra.get('parse_in_call') and \
            len(re_) >= len(fe) and re_[:len(fe)] == fe:
        return Violation(PROP, 'errors', 'parser-error-of-include-contained-by-enclosing-function-call',
                         {'location': ref.error[1], 'real_error': real.error,
                          'note': 'include statement executed inside a script function; the broken text was '
                                  'fetched, the BareScriptParserError was swallowed by the call wrapper and '
                                  'the call evaluated to null'})
    if kind in ('event', 'event-count'):
        ix = diff[1]
        a, b = diff[2], diff[3]
        fetch_before = any(e[0] == 'fetch' for e in fe[:ix + 1]) or any(e[0] == 'fetch' for e in re_[:ix + 1])
        if not fetch_before:
            return None
        if a is not None and b is not None and a[0] == 'fetch' and b[0] == 'fetch':
            if a[1] != b[1]:
                return Violation(PROP, 'where', f'resolved-location-differs:{mode}',
                                 {'real_fetch': a, 'expected_fetch': b, 'index': ix, 'url_kind': plan.get('url_kind'),
                                  'system_prefix': plan.get('system_prefix')})
            return Violation(PROP, 'once-in-order', f'fetch-outcome-differs:{mode}', {'real': a, 'expected': b})
        if (a is not None and a[0] == 'fetch') or (b is not None and b[0] == 'fetch'):
            return Violation(PROP, 'once-in-order', f'fetch-sequence-differs:{mode}',
                             {'real': a, 'expected': b, 'index': ix})
        return Violation(PROP, 'order', f'history-differs-after-include:{mode}', {'real': a, 'expected': b, 'index': ix})
    if kind == 'error' and diff[2] is not None and diff[2][0] == 'rt' and str(diff[2][1]).startswith('Include of "'):
        # an include that fails without any fetch (no fetch function configured): the error must still name the
        # resolved location
        return Violation(PROP, 'errors', f'include-error-differs:{mode}', {'real': diff[1], 'expected': diff[2],
                                                                          'has_fetch': plan.get('has_fetch', True)})
    if not any(e[0] == 'fetch' for e in fe) and not any(e[0] == 'fetch' for e in re_):
        return None
    if kind == 'error':
        return Violation(PROP, 'errors', f'error-differs:{mode}', {'real': diff[1], 'expected': diff[2]})
    if kind == 'globals':
        return Violation(PROP, 'scope', f'globals-differ-after-include:{mode}',
                         {'name': diff[1], 'real': diff[2], 'expected': diff[3]})
    return Violation(PROP, 'scope', f'{kind}-differs-after-include:{mode}', {'diff': diff})


# --------------------------------------------------------------------------------------------
# CLI family: bare_script.bare.main over the same VFS
# --------------------------------------------------------------------------------------------
def gen_cli(seed, rng):
    """Scripts observe through systemLog (printed) and through the sequence of open() calls."""
    n_files = 0
    files = {}

    def tick(tag):
        return ir.st_expr(ir.call('systemLog', ir.s(tag)))

    counter = [0]

    def body(location, depth):
        nonlocal n_files
        stmts = []
        for _ in range(rng.randint(1, 4)):
            counter[0] += 1
            c = rng.random()
            if c < 0.4:
                stmts.append(tick(f't{counter[0]}'))
            elif c < 0.5:
                stmts.append(ir.st_expr(ir.num(counter[0]), f'v{rng.randint(0, 3)}'))
            elif c < 0.6:
                stmts.append(tick(f't{counter[0]}'))
                stmts.append(ir.st_expr(ir.call('systemLog', ir.var(f'v{rng.randint(0, 3)}'))))
            elif c < 0.7:
                ref = rng.choice(['d0.txt', 'sub/d1.txt', '../d2.txt', 'nodata.txt'])
                loc = R.ref_resolve(location, ref) if location else ref
                if ref != 'nodata.txt':
                    files.setdefault(R.normalise(loc), {'data': True, 'text': 'data@' + R.normalise(loc), 'stmts': [],
                                                        'broken': False})
                stmts.append(ir.st_expr(ir.call('systemLog', ir.call('systemFetch', ir.s(ref)))))
            elif depth < 3 and n_files < 8:
                ix = n_files
                n_files += 1
                ref = rng.choice([f'f{ix}.bare', f'lib/f{ix}.bare', f'../f{ix}.bare', f'./f{ix}.bare', f'/abs/f{ix}.bare',
                                  f'http://other/x/f{ix}.bare'])
                loc = R.ref_resolve(location, ref) if location else ref
                norm = R.normalise(loc)
                if norm not in files:
                    files[norm] = None
                    sub = body(loc, depth + 1)
                    if rng.random() < 0.15:
                        sub.append(ir.st_return())
                        sub.append(tick('unreachable'))
                    files[norm] = {'stmts': sub, 'broken': rng.random() < 0.05}
                    stmts.append(ir.st_include(ref))
            else:
                stmts.append(ir.st_include(rng.choice(['missing.bare', 'lib/missing.bare'])))
        return stmts

    scripts = []
    for _ in range(rng.randint(1, 3)):
        if rng.random() < 0.6:
            path = rng.choice(['main.bare', 'dir/main.bare', '/w/app/main.bare', 'a/b/c.bare', './s.bare'])
            if R.normalise(path) in files:
                continue
            files[R.normalise(path)] = None
            stmts = body(path, 0)
            if rng.random() < 0.3:
                stmts.append(ir.st_return(ir.num(rng.choice([0, 0, 1, 3, 255, 256, -1, 2.5]))))
            files[R.normalise(path)] = {'stmts': stmts, 'broken': rng.random() < 0.05}
            scripts.append(['file', path])
        else:
            stmts = body(None, 0)
            if rng.random() < 0.2:
                stmts.append(ir.st_return(ir.num(rng.choice([0, 1, 7]))))
            scripts.append(['code', ir.render(stmts), stmts])
    if not scripts:
        scripts.append(['code', "systemLog('only')\n", [tick('only')]])
    if rng.random() < 0.1:
        scripts.insert(rng.randint(0, len(scripts)), ['file', 'nofile.bare'])
    # argparse accepts one contiguous group of file arguments only: keep the files together
    first_file = next((i for i, sc in enumerate(scripts) if sc[0] == 'file'), None)
    if first_file is not None:
        file_scripts = [sc for sc in scripts if sc[0] == 'file']
        before = [sc for sc in scripts[:first_file] if sc[0] == 'code']
        after = [sc for sc in scripts[first_file:] if sc[0] == 'code']
        scripts = before + file_scripts + after
    plan = {'seed': seed, 'family': 'cli', 'scripts': scripts, 'files': {k: v for k, v in files.items() if v},
            'debug': rng.random() < 0.25, 'markdown_up': rng.random() < 0.1}
    gen_exec.fixup_plan(plan)
    return plan


class _FakeFile:
    def __init__(self, text):
        self.text = text

    def read(self):
        return self.text

    def write(self, body):
        return len(body)

    def __enter__(self):
        return self

    def __exit__(self, *a):
        return False


def run_cli(plan, stats):
    import bare_script.bare as bare_mod
    import bare_script.options as opt_mod
    viols = []
    files = plan['files']
    opened = []

    def vfs_open(path, mode='r', encoding=None):
        norm = R.normalise(str(path))
        opened.append(norm)
        entry = files.get(norm)
        if entry is None or 'w' in mode:
            raise FileNotFoundError(path)
        return _FakeFile(entry['text'])

    def vfs_http(request):
        norm = R.normalise(request['url'])
        opened.append(norm)
        entry = files.get(norm)
        if entry is None:
            raise OSError('404')
        return entry['text']

    class _Time:
        @staticmethod
        def time():
            return 1000.0

    argv = []
    if plan.get('debug'):
        argv.append('-d')
    if plan.get('markdown_up'):
        argv.append('-m')
    for sc in plan['scripts']:
        if sc[0] == 'file':
            argv.append(sc[1])
        else:
            argv.extend(['-c', sc[1]])
    saved = (opt_mod.__dict__.get('open'), opt_mod.fetch_http, bare_mod.time)
    out = io.StringIO()
    status = None
    escaped = None
    try:
        opt_mod.open = vfs_open
        opt_mod.fetch_http = vfs_http
        bare_mod.time = _Time
        with contextlib.redirect_stdout(out), contextlib.redirect_stderr(io.StringIO()):
            try:
                bare_mod.main(argv)
            except SystemExit as exc:
                status = exc.code
            except Exception as exc:  # pylint: disable=broad-except
                escaped = f'{type(exc).__name__}: {exc}'
    finally:
        if saved[0] is None:
            del opt_mod.open
        else:
            opt_mod.open = saved[0]
        opt_mod.fetch_http = saved[1]
        bare_mod.time = saved[2]
    stats.c['evaluations'] += 1
    stats.c['cli_runs'] += 1
    lines = [ln for ln in out.getvalue().split('\n') if not ln.startswith('BareScript: Static analysis')
             and not ln.startswith('BareScript:     ') and not ln.startswith('BareScript: Script executed')
             and not ln.startswith('BareScript: Include "') and not ln.startswith('BareScript: Function "')]
    if lines and lines[-1] == '':
        lines.pop()

    # reference
    exp_lines, exp_status, exp_opened, why = cli_reference(plan)
    dig = digest_of((status, lines, opened))
    if exp_lines is None:
        stats.c['ref_unsupported'] += 1
        return RunResult([], dig)
    if escaped is not None:
        viols.append(Violation(PROP, 'cli', 'exception-escapes-main', {'error': escaped, 'argv': argv}))
    elif opened != exp_opened:
        ix = next((i for i, (a, b) in enumerate(zip(opened, exp_opened)) if a != b), min(len(opened), len(exp_opened)))
        viols.append(Violation(PROP, 'cli', 'file-access-sequence-differs',
                               {'index': ix, 'real': opened[ix:ix + 2], 'expected': exp_opened[ix:ix + 2], 'argv': argv}))
    elif status != exp_status:
        viols.append(Violation(PROP, 'cli', 'exit-status-differs', {'real': status, 'expected': exp_status, 'why': why,
                                                                    'argv': argv, 'stdout': lines[-4:]}))
    else:
        cmp_real = [ln for ln in lines]
        if not lines_match(cmp_real, exp_lines):
            viols.append(Violation(PROP, 'cli', 'printed-output-differs', {'real': cmp_real[-8:], 'expected': exp_lines[-8:],
                                                                           'argv': argv}))
    if len(exp_opened) >= 3:
        stats.distinct['nontrivial'].add(digest_of(('cli', [o.rsplit('/', 1)[-1] for o in exp_opened], exp_status,
                                                    len(plan['scripts']))))
    if plan.get('markdown_up'):
        stats.probes['cli_markdown_up_real_packaged_include'] += 1
    sample = None
    if stats.c['cli_runs'] % 97 == 1:
        sample = {'seed': plan.get('seed'), 'argv': argv, 'files': sorted(files), 'opened': opened, 'status': status,
                  'stdout': lines[:12]}
    return RunResult(viols, dig, sample)


def _norm_line(line):
    import re
    return re.sub(r'"([^"\n]*)"', lambda m: '"' + R.normalise(m.group(1)) + '"', line)


def lines_match(real, exp):
    """exp entries are strings or ('error-names', location) wildcard entries."""
    real = [_norm_line(ln) for ln in real]
    exp = [_norm_line(e) if isinstance(e, str) else e for e in exp]
    if len(real) < len([e for e in exp if not isinstance(e, tuple)]):
        return False
    ri = 0
    for e in exp:
        if isinstance(e, tuple):
            # an error block: the rest of the output must name the location
            rest = '\n'.join(real[ri:])
            return R.normalise(e[1]) in R.normalise_all_quoted(rest) or e[1] in rest
        if ri >= len(real) or real[ri] != e:
            return False
        ri += 1
    return ri == len(real)


def cli_reference(plan):
    """Expected printed lines / exit status / file access sequence of bare.main, by RefVM."""
    files = plan['files']
    exp_lines = []
    opened = []
    globals_ = {}
    status = 0
    why = None
    error_name = None
    scripts = list(plan['scripts'])
    if plan.get('markdown_up'):
        return None, None, None, 'markdownUp: packaged include is not modelled by the reference'
    n_inline = 0
    for sc in scripts:
        p = {'files': files, 'debug': plan.get('debug', False), 'has_log': True, 'has_fetch': True,
             'system_prefix': ':bare-include:/', 'globals': {}, 'answers': {}, 'faults': [], 'fetch_faults': []}
        if sc[0] == 'file':
            name = sc[1]
            norm = R.normalise(sc[1])
            opened.append(norm)
            entry = files.get(norm)
            if entry is None:
                if error_name is not None:
                    exp_lines.append(f'{error_name}:')
                exp_lines.append(f'Failed to load "{sc[1]}"')
                return exp_lines, 1, opened, 'load failure'
            if entry.get('broken'):
                exp_lines.append(f'{name}:')
                exp_lines.append(('error-names', ''))
                return exp_lines, 1, opened, 'parse error in script file'
            stmts = entry['ir']
            p['url_kind'] = ['file', sc[1]]
        else:
            n_inline += 1
            name = f'-c {n_inline}'
            stmts = gen_exec.merge_includes(sc[2])
            p['url_kind'] = None
        error_name = name
        p['model'] = stmts
        env = Env(p, 'ref')
        ref = run_ref(p, limit=0, cap=5000, env=env, globals_=globals_)
        for ev in env.events:
            if ev[0] == 'fetch':
                opened.append(ev[1])
            elif ev[0] == 'log':
                if ev[1].startswith('BareScript: Include "') or ev[1].startswith('BareScript:     ') or \
                        ev[1].startswith('BareScript: Function "'):
                    continue
                exp_lines.append(ev[1])
        if ref.error is not None:
            if ref.error[0] in ('unsupported', 'cap'):
                return None, None, None, 'unsupported'
            exp_lines.append(f'{name}:')
            if ref.error[0] == 'rt':
                exp_lines.append(ref.error[1])
                return exp_lines, 1, opened, 'runtime error'
            exp_lines.append(('error-names', ref.error[1]))
            return exp_lines, 1, opened, 'parser error in include'
        result = ref.result
        if isinstance(result, list) and result and result[0] == 'n' and isinstance(result[1], int) and 0 <= result[1] <= 255:
            status = result[1]
        else:
            status = 1 if (result not in (None, False, '', ['n', 0]) and result != ['L', []]) else 0
        if status != 0:
            why = f'script {name} returned {result}'
            break
    return exp_lines, status, opened, why


def reducible(plan):
    out = []
    if plan.get('family') == 'cli':
        out.append(plan['scripts'])
    return out


def simplify(plan, v):
    out = []
    if plan.get('debug'):
        c = copy.deepcopy(plan)
        c['debug'] = False
        out.append(c)
    return out


def simulated_time(total):
    return {'unit': 'executions simulated (each a full include-tree run)', 'value': int(total.c.get('evaluations', 0))}
