"""C09 — the statement budget is exact, complete and monotone.

The budget is a deadline on a logical clock; the abort is a crash at an arbitrary instant.
Per program: the reference (RefVM) run without limit gives N; the real runtime is then run from
identical initial state under EVERY limit 1..N+2 (small N) or a biased sample (large N / non-
terminating programs), and each limited run is compared with the reference run under the same
limit (exact / complete), with the real unlimited run (prefix / monotone), with the seam's own count
of statement starts (bound) and with a watchdog (liveness).
"""
import copy

from .. import gen_exec, interloper
from ..core import Stats, Violation, stream, digest_of, SimWatchdog, HarnessError
from ..driver import RunResult
from ..realrun import run_real, run_ref, compare_outcomes, norm_events, interloper_probe

PROP = 'C09'
LEVEL = 'fault_enumeration'
CAP = 1500
RULE = ('seeded generation of jump-level programs (loops, guarded recursion, callbacks through systemPartial/'
        'hostCall/arrayIndexOf/data expressions, include trees over a VFS); per program every limit L in 1..N+2 '
        '(N<=60) or a biased sample is one evaluation; a case is non-trivial when the budget abort fired strictly '
        'inside the run (0<L<N) and distinct by digest(program shape, L-position class, where the abort landed)')
COMPONENTS = {
    'real': ['bare_script.runtime.execute_script/_execute_script_helper/evaluate_expression', 'bare_script.library '
             '(systemPartial, arrayIndexOf, dataFilter, dataCalculatedField, ...)', 'bare_script.data',
             'bare_script.parser (included texts)', 'bare_script.options.url_file_relative'],
    'stub': ['fetchFn (VFS)', 'logFn (recorder)', 'host functions hostTick/hostNext/hostObserve/hostCall',
             'options dict (SimOptions seam)'],
}
ASSUMPTIONS = [
    'RefVM implements the statement/counting semantics of the property statement for the workload fragment only',
    'interleaving inside library functions is not explored (single client)',
    'programs whose reference run leaves the fragment are skipped and counted (ref_unsupported)',
]


def budget(tier):
    if tier == 'thorough':
        return {'seeds': 240000, 'chunk': 200, 'wall_cap': 1200, 'extra': {'big': True}}
    return {'seeds': 16000, 'chunk': 100, 'wall_cap': 240, 'extra': None}


def gen(seed, tier, extra=None):
    rng = stream(seed, 'plan')
    knobs = {}
    # swarm: vary sizes and enabled features per run
    knobs['include'] = rng.random() < 0.55
    knobs['callbacks'] = rng.random() < 0.75
    knobs['data'] = rng.random() < 0.6
    knobs['p_nonterm'] = rng.choice([0.0, 0.1, 0.3])
    knobs['max_top'] = rng.choice([4, 8, 14, 20] if not (extra or {}).get('big') else [6, 14, 24, 32])
    knobs['raw_jumps'] = rng.choice([0.0, 0.2, 0.5])
    knobs['include_depth'] = rng.choice([1, 2, 3, 4])
    knobs['fanout'] = rng.choice([1, 2, 3])
    knobs['func_includes'] = rng.random() < 0.25
    g = gen_exec.ExecGen(rng, knobs)
    if rng.random() < 0.2:
        g.k['data'] = False
        plan = g.structured_plan()
    else:
        plan = g.gen_plan()
    plan['seed'] = seed
    plan['scenario'] = 'default-limit' if rng.random() < 0.04 else 'limits'
    plan['sim_options'] = rng.random() < 0.8
    plan['float_limits'] = rng.random() < 0.2      # the documented default is written 1e9: limits may be floats
    ri = stream(seed, 'interloper')
    if ri.random() < 0.3:
        plan['interloper_spec'] = interloper.spec(ri)
    return plan


def fixup(plan):
    gen_exec.fixup_plan(plan)


def features(plan):
    """Program features used in violation signatures (which call paths exist in the program)."""
    text = repr(plan['model']) + repr([e.get('stmts') for e in (plan.get('files') or {}).values()])
    f = []
    if "'include'" in text:
        f.append('include')
    if "'vars0'" in text or "'vars1'" in text:
        f.append('data-expression-with-variables')
    elif "'dataFilter'" in text or "'dataCalculatedField'" in text:
        f.append('data-expression')
    return '+'.join(f) or 'plain'


def limits_for(plan, n, marks):
    rng = stream(plan.get('seed', 0), 'limits')
    if plan.get('only_limits'):
        return list(plan['only_limits'])
    if n is None:
        ls = {1, 2, 3, CAP - 1}
        while len(ls) < 10:
            ls.add(rng.randint(1, CAP - 1))
        return sorted(ls)
    if n <= 60:
        return list(range(1, n + 3))
    ls = {1, 2, n - 1, n, n + 1, n + 2}
    for m in marks:
        for d in (-1, 0, 1):
            if 0 < m + d:
                ls.add(m + d)
        if len(ls) > 40:
            break
    while len(ls) < 30:
        ls.add(rng.randint(1, n + 2))
    return sorted(ls)


def run(plan, stats):
    viols = []
    feat = features(plan)
    dig = []
    sim_options = True
    plain_diff = not plan.get('sim_options', True)

    if plan.get('scenario') == 'default-limit':
        return run_default(plan, stats)
    if plan.get('source') is not None:
        # structured source: lowered by the real parser; the reference runs the lowered model
        from bare_script import parse_script, BareScriptParserError
        try:
            plan = dict(plan)
            plan['model'] = parse_script(plan['source'])['statements']
        except BareScriptParserError:
            return RunResult([], digest_of('invalid-source'))
        stats.probes['structured_source_program'] += 1

    ref0 = run_ref(plan, limit=0, cap=CAP)
    if ref0.error is not None and ref0.error[0] == 'unsupported':
        stats.c['ref_unsupported'] += 1
        return RunResult([], digest_of(('unsupported', ref0.error)))
    nonterm = ref0.error == ('cap',)
    n = None if nonterm else ref0.count
    stats.c['programs'] += 1
    stats.c['programs_nonterm' if nonterm else 'programs_term'] += 1

    real0 = None
    if not nonterm:
        real0 = run_real(plan, limit=0, sim_options=sim_options, max_starts=n * 3 + 200)
        stats.c['evaluations'] += 1
        stats.c['statements_simulated'] += real0.starts if sim_options else (real0.count or 0)
        stats.faults.update(real0.fired)
        diff = compare_outcomes(real0, ref0)
        dig.append((real0.summary(), real0.count))
        if diff is not None:
            if real0.error is not None and real0.error[0] == 'watchdog':
                viols.append(Violation(PROP, 'live', 'unlimited-run-does-not-end:' + feat,
                                       {'expected_statements': n, 'diff': diff}))
            else:
                stats.c['unattributable'] += 1
                stats.notes['unattributable:' + str(diff[0])] += 1
            return RunResult(viols, digest_of(dig))
        # C09.count
        if real0.count != n:
            viols.append(Violation(PROP, 'count', 'count-lost:' + feat,
                                   {'statementCount': real0.count, 'reference': n, 'seam_starts': real0.starts}))
        # nested independent uses of the library inside the callbacks neither change this run nor its count
        if not viols:
            lim_i = 0 if plan.get('seed', 0) % 2 else n + 1
            base_i = real0 if lim_i == 0 else run_real(plan, limit=lim_i, sim_options=True, max_starts=n * 3 + 200)
            viols.extend(interloper_probe(plan, stats, PROP, base_i,
                                          lambda p: run_real(p, limit=lim_i, sim_options=True, max_starts=n * 3 + 200)))
        # the counter restarts with every execution: a second run that re-uses the SAME options object (under a
        # limit that the two runs together would exceed) behaves like the first
        if n >= 1 and plan.get('seed', 0) % 3 == 0:
            lim2 = n + 1
            first = run_real(plan, limit=lim2, sim_options=True, max_starts=lim2 + 200)
            second = run_real(plan, limit=lim2, sim_options=True, max_starts=lim2 + 200, reuse_options=first.extra['options'])
            stats.c['evaluations'] += 2
            stats.probes['options_object_reused_for_a_second_run'] += 1
            if first.summary() == real0.summary() and (second.summary() != first.summary() or second.count != first.count):
                viols.append(Violation(PROP, 'complete', 'second-run-with-reused-options-differs:' + feat,
                                       {'limit': lim2, 'reference_total': n, 'first_count': first.count,
                                        'second_count': second.count, 'second_error': second.error}))
    marks = getattr(ref0, 'extra', {}).get('marks', [])
    limits = limits_for(plan, n, marks)
    base_events = norm_events(real0.events) if real0 is not None else None
    for lim in limits:
        if plan.get('float_limits'):
            lim = float(lim)
        ref_l = run_ref(plan, limit=lim, cap=0)
        if ref_l.error is not None and ref_l.error[0] == 'unsupported':
            stats.c['ref_unsupported_limited'] += 1
            continue
        try:
            real_l = run_real(plan, limit=lim, sim_options=sim_options, max_starts=lim + 200)
        except SimWatchdog:
            raise
        stats.c['evaluations'] += 1
        stats.c['statements_simulated'] += real_l.starts if sim_options else min(real_l.count or 0, lim + 1)
        stats.faults.update(real_l.fired)
        aborted_ref = ref_l.error is not None and ref_l.error[0] == 'rt' and ref_l.error[1].startswith('Exceeded maximum')
        if aborted_ref:
            stats.faults['budget_abort'] += 1
        dig.append((lim, real_l.summary(), real_l.count))
        where = 'inside' if (n is None or lim < n) else 'beyond'
        # liveness
        if real_l.error is not None and real_l.error[0] == 'watchdog':
            viols.append(Violation(PROP, 'live', f'not-aborted:{feat}',
                                   {'limit': lim, 'starts_seen': real_l.starts, 'reference_total': n}))
            continue
        # bound (seam-observed statement starts)
        if sim_options and real_l.starts > lim + 1:
            viols.append(Violation(PROP, 'bound', f'starts-exceed-limit:{feat}',
                                   {'limit': lim, 'starts_seen': real_l.starts, 'reference_total': n}))
        diff = compare_outcomes(real_l, ref_l)
        if diff is not None:
            rule = 'exact' if where == 'inside' else 'complete'
            kind = diff[0]
            if where == 'inside' and real_l.error is None and aborted_ref:
                sig = f'limit-not-enforced:{feat}'
            elif where == 'inside' and aborted_ref and real_l.error is not None and real_l.error[0] == 'rt' \
                    and real_l.error[1].startswith('Exceeded maximum') and kind in ('event', 'event-count'):
                sig = f'abort-at-wrong-statement:{feat}'
            elif where == 'beyond' and real_l.error is not None and real_l.error[0] == 'rt' \
                    and real_l.error[1].startswith('Exceeded maximum'):
                sig = f'spurious-abort:{feat}'
            else:
                sig = f'{kind}-differs:{feat}'
            viols.append(Violation(PROP, rule, sig, {'limit': lim, 'reference_total': n, 'diff': diff,
                                                     'real_error': real_l.error, 'ref_error': ref_l.error}))
            continue
        # instrumentation differential: the same run with a plain dict as options must be identical
        if plain_diff and real_l.error is None or (plain_diff and real_l.error[0] == 'rt'):
            plain = run_real(plan, limit=lim, sim_options=False)
            stats.c['plain_dict_differential_runs'] += 1
            if plain.summary() != real_l.summary() or plain.count != real_l.count:
                raise HarnessError(f'SimOptions changes behaviour (seed {plan.get("seed")}, limit {lim})')
        # self-relative monotonicity: effects under a smaller limit are a prefix of the unlimited run
        if base_events is not None:
            evs = norm_events(real_l.events)
            if evs != base_events[:len(evs)]:
                viols.append(Violation(PROP, 'prefix', f'not-a-prefix:{feat}', {'limit': lim}))
        if aborted_ref:
            landed = 'top'
            # where did the abort land? (probe counters)
            if real_l.events:
                last = real_l.events[-1][0]
                landed = last
            stats.probes['abort_after_' + str(landed)] += 1
            stats.distinct['nontrivial'].add(digest_of((shape(plan), lim if lim < 8 else (lim * 8) // max(n or CAP, 1),
                                                        landed, len(real_l.events) % 7)))
        if len(viols) > 6:
            break
    stats.distinct['programs'].add(digest_of(shape(plan)))
    if plan.get('files'):
        stats.probes['program_with_includes'] += 1
    if 'data-expression-with-variables' in feat:
        stats.probes['program_with_data_variables'] += 1
    sample = None
    if n is not None and n > 12 and stats.c['programs'] % 23 == 1:
        from .. import ir
        sample = {'seed': plan.get('seed'), 'program': ir.render_statements(plan['model'])[:40],
                  'files': sorted((plan.get('files') or {}).keys()), 'reference_total': n, 'limits': limits[:12]}
    return RunResult(viols, digest_of(dig), sample)


def shape(plan):
    def sh(stmts):
        out = []
        for st in stmts:
            (k, v), = st.items()
            if k == 'function':
                out.append(('function', sh(v['statements'])))
            elif k == 'expr':
                e = v['expr']
                out.append(('expr', next(iter(e)), e['function']['name'] if 'function' in e else None))
            else:
                out.append(k)
        return out
    return (sh(plan['model']), sorted((k, sh(v['stmts'])) for k, v in (plan.get('files') or {}).items()))


def run_default(plan, stats):
    """C09.default — with no maxStatements key the default limit exists and is enforced.

    Discrete-event style: the simulator owns the logical clock (options['statementCount'], a
    documented option) and jumps it forward to just below 1e9 inside a loop that never ends by
    itself. Calibration first: the same jump under an explicit small limit must abort the run —
    only then does the clock live where the documentation says, and only then is the default-limit
    conclusion drawn.
    """
    from .. import ir
    from ..ir import call, s
    viols = []
    prog = [ir.st_label('top'), ir.st_expr(call('hostTick', s('loop'))), ir.st_jump('top')]
    p = dict(plan)
    p['model'] = prog
    p['files'] = {}
    p['faults'] = []
    p['fetch_faults'] = []
    dig = []

    def warp_hook(target):
        state = {'done': False}

        def hook(opts, value, starts):
            if not state['done'] and starts == 40:
                state['done'] = True
                dict.__setitem__(opts, 'statementCount', target)
        return hook

    # calibration: explicit limit 10**6, warp to 10**6 - 20: must abort with that limit
    cal = run_real(p, limit=10 ** 6, sim_options=True, hook=warp_hook(10 ** 6 - 20), max_starts=5000)
    dig.append(cal.summary())
    stats.c['evaluations'] += 1
    stats.faults['clock_jump'] += 1
    calibrated = cal.error is not None and cal.error[0] == 'rt' and cal.error[1].startswith('Exceeded maximum') \
        and cal.starts < 100
    if not calibrated:
        stats.notes['default-limit: clock jump not honoured (counter not in options) -> rule not evaluated'] += 1
        return RunResult([], digest_of(dig))
    run = run_real(p, limit='absent', sim_options=True, hook=warp_hook(10 ** 15), max_starts=5000)
    dig.append(run.summary())
    stats.c['evaluations'] += 1
    stats.faults['clock_jump'] += 1
    stats.c['statements_simulated'] += cal.starts + run.starts
    stats.c['clock_ticks_jumped_over'] += 10 ** 15 + 10 ** 6
    stats.probes['default_limit_runs'] += 1
    if run.error is not None and run.error[0] == 'watchdog':
        viols.append(Violation(PROP, 'default', 'no-default-limit',
                               {'starts_seen_after_clock_jump_to_1e15': run.starts,
                                'default_passed_to_get': run.default_seen[:1]}))
    elif not (run.error is not None and run.error[0] == 'rt' and run.error[1].startswith('Exceeded maximum')):
        viols.append(Violation(PROP, 'default', 'default-limit-wrong-outcome', {'error': run.error, 'result': run.result}))
    stats.distinct['nontrivial'].add(digest_of(('default', run.starts)))
    return RunResult(viols, digest_of(dig))


def simulated_time(total):
    return {'unit': 'statements started under simulation (logical clock ticks)',
            'value': int(total.c.get('statements_simulated', 0))}


def simplify(plan, v):
    """Extra shrinking candidates: focus on the failing limit, drop unreferenced answers/exprs."""
    out = []
    lim = (v.detail or {}).get('limit') if isinstance(v.detail, dict) else None
    if lim is not None and plan.get('only_limits') != [lim]:
        c = copy.deepcopy(plan)
        c['only_limits'] = [lim]
        out.append(c)
    text = repr(plan['model']) + repr([e.get('stmts') for e in (plan.get('files') or {}).values()])
    unused = [k for k in plan.get('answers', {}) if repr(k) not in text]
    if unused:
        c = copy.deepcopy(plan)
        for k in unused:
            del c['answers'][k]
        out.append(c)
    if plan.get('debug'):
        c = copy.deepcopy(plan)
        c['debug'] = False
        out.append(c)
    return out
