"""C05 — runtime errors are contained: only documented exceptions escape.

Host functions and library functions are parties behind a seam that fail at arbitrary instants;
the call wrapper is the containment wall. Two workload families:

  contain      generated programs (script functions, callbacks through systemPartial / hostCall /
               arrayIndexOf / data expressions) where the k-th call of a host function raises class X;
               for short programs EVERY (call occurrence x a rotating set of classes) is enumerated.
               Oracle: RefVM under the same fault plan (call -> null / return_value, execution
               continues, one debug report naming the function), after a fault-free baseline agreed.
  adversarial  straight-line programs `rK = <expr>; hostObserve('rK', rK)` where <expr> is an operator
               over the adversarial operand pool, any library function with wrong-typed / missing /
               surplus arguments, systemFetch in all request shapes over a faulty VFS, or arraySort /
               arrayIndexOf with a failing comparator / matcher. Oracle: nothing but
               BareScriptRuntimeError / BareScriptParserError escapes, every statement still runs,
               every observed value is a BareScript value, debug mode changes nothing but log lines.
"""
import copy
import random as _random

from .. import gen_exec, ir, interloper
from ..core import Stats, Violation, stream, digest_of, canon, find_non_values, SimOptions
from ..driver import RunResult
from ..env import Env, EXC_NAMES, make_exception, SimBaseError
from ..refvm import HostFailure
from ..realrun import run_real, run_ref, compare_outcomes, norm_events, interloper_probe

PROP = 'C05'
LEVEL = 'fault_enumeration'
RULE = ('contain family: per generated program every host-call occurrence x rotating exception classes is one '
        'evaluation (enumerated when the fault-free run has <= 14 host calls, sampled otherwise); adversarial family: '
        'one evaluation per straight-line program of operator / library / systemFetch calls over the adversarial '
        'operand pool; non-trivial = a fault fired or a call failed and the run continued; distinct by '
        'digest(failing call kind, exception class, containing construct, outcome)')
COMPONENTS = {
    'real': ['bare_script.runtime.evaluate_expression call wrapper and operators', 'bare_script.runtime.execute_script',
             'bare_script.library (all functions)', 'bare_script.value.value_args_validate', 'bare_script.data'],
    'stub': ['host functions that raise on schedule', 'fetchFn (faulty VFS)', 'logFn recorder', 'options (SimOptions)'],
}
ASSUMPTIONS = [
    'RefVM containment rule: the nearest enclosing call expression of a failing party evaluates to null / return_value',
    'magnitudes that make CPython itself run for minutes are excluded (int ** huge int, sizes > 1e4, huge datetimeNew '
    'time components, regex patterns outside a safe pool); datetimeNow/Today/mathRandom are excluded (non-deterministic)',
    'a logFn / urlFn that raises and a BareScriptRuntimeError raised by a host function are outside the statement',
]

ROT = 4   # exception classes tried per call occurrence


def budget(tier):
    if tier == 'thorough':
        return {'seeds': 800000, 'chunk': 500, 'wall_cap': 1200, 'extra': {'big': True}}
    return {'seeds': 12000, 'chunk': 100, 'wall_cap': 240, 'extra': None}


# --------------------------------------------------------------------------------------------
# plans
# --------------------------------------------------------------------------------------------
def gen(seed, tier, extra=None):
    rng = stream(seed, 'plan')
    if rng.random() < 0.45:
        return gen_adversarial(seed, rng)
    knobs = {'include': False, 'callbacks': True, 'data': rng.random() < 0.6, 'p_nonterm': 0.0,
             'raw_jumps': 0.0, 'max_top': rng.choice([3, 5, 8, 12]), 'n_funcs': rng.choice([1, 2, 3]),
             'max_loop': 2, 'host_callbacks': rng.choice([0.0, 0.3, 0.6]), 'early_return': 0.03}
    g = gen_exec.ExecGen(rng, knobs)
    plan = g.gen_plan()
    plan['seed'] = seed
    plan['family'] = 'contain'
    plan['has_log'] = rng.random() < 0.85
    plan['debug'] = rng.random() < 0.5
    plan['rot'] = rng.randrange(len(EXC_NAMES))
    ri = stream(seed, 'interloper')
    if ri.random() < 0.3:
        plan['interloper_spec'] = interloper.spec(ri, sites=('hostTick', 'hostNext', 'hostObserve', 'hostCall', 'log'))
    return plan


BIG = '9' * 400
NUM_SRC = ['0', '1', '2', '0.5', '3', '10', '-1', '-8', '-0', '1e+300', '1e-320', '1e+308', '255', '7']
SAFE_NUMS = [0, 1, 2, 0.5, 3, 10, -1, -2, 64, 7]
STRINGS = ['', 'a', 'abc', '1', 'null', '2024-01-01', '{"a":1}', 'x,y\n1,2', '(', 'é𝄞', 'true']
NO_HUGE = {'arrayNewSize', 'numberToFixed', 'mathRound', 'datetimeNew', 'stringRepeat', 'jsonStringify', 'fixed', 'round',
           'rept', 'date'}
# jsonStringify with an indent on a 25000-level value builds ~1e10 characters before it fails (a magnitude that makes
# CPython itself churn for minutes, like the others listed under ASSUMPTIONS)
PATHO_EXCLUDE = {'jsonStringify', 'arrayNewSize', 'stringRepeat', 'schemaParse', 'schemaParseEx'}
EXCLUDED_FUNCS = {'datetimeNow', 'datetimeToday', 'mathRandom', 'now', 'today', 'rand', 'systemLog', 'systemLogDebug'}


def operand(rng, depth=0):
    """An adversarial operand expression (IR)."""
    c = rng.random()
    if c < 0.35:
        text = rng.choice(NUM_SRC)
        if text.startswith('-'):
            return ir.unop('-', {'number': float(text[1:])})
        return {'number': float(text)}
    if c < 0.45:
        return ir.call('numberParseInt', ir.s(rng.choice(['9' * 20, '9' * 100, BIG, '-' + BIG, '12', '0'])))
    if c < 0.48:
        return ir.binop('**', ir.call('numberParseInt', ir.s(BIG)), ir.num(rng.choice([2, 11, 12])))
    if c < 0.50:
        # an integer beyond CPython's int->str digit limit; NaN and the infinities built in-language or host-supplied
        return rng.choice([huge_int, nan_expr, inf_expr, lambda: ir.var(rng.choice(['gNaN', 'gInf', 'gNegInf', 'gHuge']))])()
    if c < 0.58:
        return ir.s(rng.choice(STRINGS))
    if c < 0.64:
        return ir.var(rng.choice(['null', 'true', 'false', 'undefinedVar']))
    if c < 0.67:
        return ir.call('datetimeNew', ir.num(rng.choice([2000, 9999, 100, 2024])), ir.num(rng.choice([1, 12, 2])),
                       ir.num(rng.choice([1, 28, 31])))
    if c < 0.70:
        # host-supplied datetimes: time-zone aware, naive, and a plain date
        return ir.var(rng.choice(['gAware', 'gAwareUtc', 'gNaive', 'gDate']))
    if c < 0.75:
        return ir.call('arrayNew', *[operand(rng, 2) for _ in range(rng.randint(0, 2))]) if depth < 2 else ir.call('arrayNew')
    if c < 0.80:
        return ir.call('objectNew', ir.s('k'), operand(rng, 2)) if depth < 2 else ir.call('objectNew')
    if c < 0.84:
        return ir.var(rng.choice(['fnA', 'hostTick', 'arrayNew']))
    if c < 0.87:
        return ir.call('regexNew', ir.s(rng.choice(['a', 'a+', '^$'])))
    if c < 0.93 and depth < 2:
        return ir.binop(rng.choice(OPS), operand(rng, depth + 1), operand(rng, depth + 1))
    return ir.var(rng.choice(['r0', 'r1', 'r2', 'r3']))


OPS = ['+', '-', '*', '/', '%', '**', '==', '!=', '<', '<=', '>', '>=', '&&', '||']


def huge_int():
    """An int of ~4800 decimal digits (str() of it raises ValueError in CPython >= 3.11)."""
    return ir.call('numberParseInt', ir.s('f' * 4000), ir.num(16))


def inf_expr():
    return ir.binop('*', ir.num(1e308), ir.num(10))


def nan_expr():
    return ir.binop('-', inf_expr(), inf_expr())


def classic(rng):
    """The operand combinations the property's quantifier names, hit deliberately and often."""
    big = ir.call('numberParseInt', ir.s(BIG))
    neg = lambda n: ir.unop('-', ir.num(n))
    dt = ir.call('datetimeNew', ir.num(2000), ir.num(1), ir.num(1))
    anyv = lambda: operand(rng, 2)
    table = [
        lambda: ir.binop('/', anyv(), ir.num(0)), lambda: ir.binop('%', anyv(), ir.num(0)),
        lambda: ir.binop('/', ir.num(rng.choice([0, 1, 7])), rng.choice([ir.num(0), neg(0), ir.binop('-', ir.num(1), ir.num(1))])),
        lambda: ir.binop('%', big, ir.num(0)), lambda: ir.binop('/', big, ir.binop('*', big, ir.num(0))),
        lambda: ir.binop('**', ir.num(0), neg(rng.choice([1, 2, 0.5]))),
        lambda: ir.binop('**', ir.num(rng.choice([10, 2, 1.5])), ir.num(rng.choice([1000, 400, 999]))),
        lambda: ir.binop('**', neg(rng.choice([8, 1, 2.5, 27])), ir.num(rng.choice([0.5, 1.5, 0.25, 0.3333]))),
        lambda: ir.binop('**', neg(rng.choice([8, 1])), neg(0.5)),
        lambda: ir.binop(rng.choice(['+', '-', '*', '/', '%']), big, ir.num(rng.choice([0.5, 1.5, 1e300]))),
        lambda: ir.binop(rng.choice(['+', '-', '*', '/', '%']), ir.num(0.5), big),
        lambda: ir.binop('*', ir.num(1e308), ir.num(rng.choice([10, 1e308]))),
        lambda: ir.binop(rng.choice(['+', '-']), dt, rng.choice([ir.num(1e300), neg(1e300), big, ir.num(1e18), neg(1e17)])),
        lambda: ir.binop('+', ir.num(1e300), dt),
        lambda: ir.binop('+', ir.s('n='), ir.binop('**', big, ir.num(12))),
        lambda: ir.binop('+', ir.binop('**', big, ir.num(11)), ir.s('')),
        lambda: ir.binop('-', dt, dt), lambda: ir.binop('/', ir.num(1e-320), ir.num(1e308)),
        # operands whose conversion raises ValueError inside the operator: str() of a >4300-digit int, int() of NaN
        lambda: ir.binop('+', ir.s(rng.choice(['n=', ''])), rng.choice([huge_int(), ir.var('gHuge'), ir.binop('*', huge_int(), huge_int())])),
        lambda: ir.binop('+', rng.choice([huge_int(), ir.var('gHuge')]), ir.s('x')),
        lambda: ir.binop('+', ir.s('v='), rng.choice([ir.call('arrayNew', ir.num(1), huge_int()),
                                                      ir.call('objectNew', ir.s('k'), huge_int())])),
        lambda: ir.binop(rng.choice(['+', '-']), rng.choice([dt, ir.var('gAware'), ir.var('gNaive')]),
                         rng.choice([nan_expr(), inf_expr(), ir.var('gNaN'), ir.var('gInf'), ir.var('gNegInf')])),
        lambda: ir.binop('+', rng.choice([nan_expr(), ir.var('gNaN'), ir.var('gInf')]), dt),
        lambda: ir.binop(rng.choice([o for o in OPS if o != '**']), rng.choice([nan_expr(), ir.var('gNaN'), ir.var('gHuge'), huge_int()]), anyv()),
        lambda: ir.binop('**', big, ir.num(rng.choice([0.5, 1.5]))), lambda: ir.binop('**', ir.num(1.5), big),
        lambda: ir.binop('%', ir.num(rng.choice([5, 5.5])), rng.choice([neg(0), ir.num(0)])),
        lambda: ir.unop('-', big), lambda: ir.binop('*', big, big),
        # exponents at the far end of 'huge': overflowed to an infinity, or NaN (float ** inf is immediate; so is
        # int ** inf: the int is converted to a float first)
        lambda: ir.binop('**', rng.choice([neg(2), neg(0.5), neg(1), ir.num(2), ir.num(0), big, ir.var('gNegInf')]),
                         rng.choice([inf_expr(), ir.unop('-', inf_expr()), nan_expr(), ir.var('gInf'), ir.var('gNegInf'),
                                     ir.var('gNaN')])),
        # comparison operators over an int beyond the float range and a float (Python compares them exactly)
        lambda: ir.binop(rng.choice(['==', '!=', '<', '<=', '>', '>=']), rng.choice([big, ir.var('gHuge'), ir.unop('-', big)]),
                         ir.num(rng.choice([1, 0.5, 1e300]))),
        lambda: ir.binop(rng.choice(['==', '!=', '<', '<=', '>', '>=']), ir.num(rng.choice([0, 2.5])),
                         rng.choice([big, ir.call('arrayNew', big), ir.call('objectNew', ir.s('k'), big)])),
        # datetimes of different flavours meeting in comparison and difference operators
        lambda: ir.binop(rng.choice(['==', '!=', '<', '<=', '>', '>=', '-']),
                         ir.var(rng.choice(['gAware', 'gAwareUtc', 'gNaive', 'gDate'])),
                         rng.choice([ir.var(rng.choice(['gAware', 'gAwareUtc', 'gNaive', 'gDate'])), dt])),
        lambda: ir.binop(rng.choice(['==', '<', '-']), dt, ir.var(rng.choice(['gAware', 'gAwareUtc', 'gDate']))),
        lambda: ir.call('arrayIndexOf', ir.call('arrayNew', ir.var('gNaive'), ir.var('gAware')), ir.var('gAwareUtc')),
    ]
    return rng.choice(table)()


def _is_special_float_expr(r):
    return r in (inf_expr(), nan_expr(), ir.unop('-', inf_expr())) or \
        ('variable' in r and r['variable'] in ('gInf', 'gNegInf', 'gNaN'))


def safe_pow(e):
    """Reject int ** huge-int shapes that make CPython compute for minutes: an exponent may only be
    a plain number literal of small magnitude."""
    (k, v), = e.items()
    if k == 'binary':
        if v['op'] == '**':
            r = v['right']
            ok = _is_special_float_expr(r) or ('number' in r and abs(r['number']) <= 1000) or \
                 ('unary' in r and 'number' in r['unary']['expr'] and abs(r['unary']['expr']['number']) <= 1000)
            if not ok:
                return False
            # base: no nested ** towers
            if '**' in repr(v['left']):
                return False
        return safe_pow(v['left']) and safe_pow(v['right'])
    if k == 'unary':
        return safe_pow(v['expr'])
    if k == 'group':
        return safe_pow(v)
    if k == 'function':
        return all(safe_pow(a) for a in v.get('args', []))
    return True


def lib_call(rng, names):
    name = rng.choice(names)
    nargs = rng.choice([0, 1, 1, 2, 2, 3, 3, 4, 5])
    args = []
    for _ in range(nargs):
        c = rng.random()
        if c < 0.3:
            args.append(ir.num(rng.choice(SAFE_NUMS)))
        elif c < 0.5 and name not in NO_HUGE:
            args.append(operand(rng, 1))
        elif c < 0.65:
            args.append(ir.s(rng.choice(STRINGS)))
        elif c < 0.72:
            args.append(ir.var(rng.choice(['null', 'true', 'false'])))
        elif c < 0.80:
            args.append(ir.call('arrayNew', ir.num(1), ir.s('a'), ir.var('null')))
        elif c < 0.86:
            args.append(ir.call('objectNew', ir.s('a'), ir.num(1)))
        elif c < 0.885 and name not in PATHO_EXCLUDE:
            args.append(ir.var(rng.choice(['gDeep', 'gCyc', 'gDeepObj', 'gCycObj'])))
        elif c < 0.90:
            args.append(ir.var(rng.choice(['fnA', 'hostTick'])))
        elif c < 0.93:
            args.append(ir.call('regexNew', ir.s('a')))
        elif c < 0.96:
            args.append(ir.call('datetimeNew', ir.num(2020), ir.num(2), ir.num(29)))
        elif name not in NO_HUGE:
            args.append(ir.var(rng.choice(['r0', 'r1', 'r2'])))
        else:
            # an earlier result may be a huge number: arrayNewSize(1e20) and the like loop for hours (ASSUMPTIONS)
            args.append(ir.num(rng.choice(SAFE_NUMS)))
    return ir.call(name, *args)


def fetch_call(rng):
    urls = ['a.txt', 'missing.txt', 'dir/b.txt', 'http://h/c.txt']
    c = rng.random()
    if c < 0.3:
        return ir.call('systemFetch', ir.s(rng.choice(urls)))
    if c < 0.5:
        return ir.call('systemFetch', ir.call('objectNew', ir.s('url'), ir.s(rng.choice(urls)),
                                              *( [ir.s('body'), ir.s('x')] if rng.random() < 0.5 else [])))
    if c < 0.8:
        items = [ir.s(rng.choice(urls)) if rng.random() < 0.6 else
                 ir.call('objectNew', ir.s('url'), ir.s(rng.choice(urls))) for _ in range(rng.randint(0, 3))]
        if rng.random() < 0.2:
            items.append(ir.num(5))
        return ir.call('systemFetch', ir.call('arrayNew', *items))
    return ir.call('systemFetch', rng.choice([ir.num(1), ir.var('null'), ir.call('objectNew', ir.s('nourl'), ir.s('x')),
                                              ir.call('objectNew', ir.s('url'), ir.num(3))]))


def gen_adversarial(seed, rng):
    from bare_script.library import SCRIPT_FUNCTIONS, EXPRESSION_FUNCTIONS
    names = sorted(n for n in SCRIPT_FUNCTIONS if n not in EXCLUDED_FUNCS)
    stmts = [ir.st_function('fnA', ['a0'], [ir.st_expr(ir.call('hostTick', ir.s('in-fnA'))),
                                            ir.st_return(ir.binop('/', ir.var('a0'), ir.num(0)))])]
    # fnRec(n, lim): recursion lim levels deep — beyond the host's stack the interpreter's own frames fail
    stmts.append(ir.st_function('fnRec', ['n', 'lim'], [
        ir.st_jump('done', ir.binop('>=', ir.var('n'), ir.var('lim'))),
        ir.st_return(ir.call('fnRec', ir.binop('+', ir.var('n'), ir.num(1)), ir.var('lim'))),
        ir.st_label('done'),
        ir.st_return(ir.var('n'))]))
    # fnId(v): a script function that must NOT fail — its calls have known values (a spurious host exception inside
    # the interpreter's own machinery would be contained by the call wrapper and turn them into null)
    stmts.append(ir.st_function('fnId', ['v'], [ir.st_expr(ir.call('hostTick', ir.s('in-fnId'))), ir.st_return(ir.var('v'))]))
    n = rng.randint(2, 8)
    kinds = []
    expect = {}
    for ix in range(n):
        c = rng.random()
        if c < 0.05:
            lim = rng.choice([30, 150, 400, 3000, 1000000000])
            e = ir.call('fnRec', ir.num(0), ir.num(lim))
            kinds.append('deep-recursion')
            if lim <= 400:
                expect[str(ix)] = ['n', lim]
        elif c < 0.09:
            k = rng.choice(['direct', 'nested', 'hostCall', 'array'])
            if k == 'direct':
                e, expect[str(ix)] = ir.call('fnId', ir.num(7)), ['n', 7]
            elif k == 'nested':
                e, expect[str(ix)] = ir.call('fnId', ir.call('fnId', ir.s('s'))), 's'
            elif k == 'hostCall':
                e, expect[str(ix)] = ir.call('hostCall', ir.var('fnId'), ir.num(5)), ['n', 5]
            else:
                e, expect[str(ix)] = ir.call('arrayNew', ir.call('fnId', ir.num(1)), ir.call('fnRec', ir.num(0), ir.num(3))), \
                    ['L', [['n', 1], ['n', 3]]]
            kinds.append('script-call')
        elif c < 0.12:
            # a library function that parses one of its string arguments: syntactically invalid expression text
            rows = ir.call('arrayNew', ir.call('objectNew', ir.s('a'), ir.num(1)), ir.call('objectNew', ir.s('a'), ir.num(2)))
            bad = ir.s(rng.choice(['a >', '2 * (a', '(', 'fnA(', 'a +', ')', 'a b', "'unterminated", 'a ** ** 2', '']))
            variables = [ir.call('objectNew', ir.s('v'), ir.num(1))] if rng.random() < 0.4 else []
            e = rng.choice([
                lambda: ir.call('dataFilter', rows, bad, *variables),
                lambda: ir.call('dataCalculatedField', rows, ir.s('f'), bad, *variables),
                lambda: ir.call('dataJoin', rows, rows, bad),
                lambda: ir.call('dataJoin', rows, rows, ir.s('a'), bad, ir.var('true'), *variables),
            ])()
            kinds.append('data-bad-expression')
        elif c < 0.135:
            # the built-in 'if' special form with any number of arguments (it is evaluated outside the call wrapper)
            e = ir.call('if', *[operand(rng, 1) for _ in range(rng.choice([0, 1, 2, 3, 4, 4, 5, 6]))])
            if not safe_pow(e):
                e = ir.call('if', ir.num(1), ir.num(2), ir.num(3), ir.num(4))
            kinds.append('if-special-form')
        elif c < 0.15:
            # hand-built model: a call expression without the optional 'args' member
            e = {'function': {'name': rng.choice(['fnA', 'fnRec', 'arrayNew', 'stringLength', 'hostTick', 'mathMax'])}}
            kinds.append('call-without-args')
        elif c < 0.165:
            # a self-containing array / object as the non-string operand of '+': the text conversion happens in the
            # operator itself, outside the call wrapper (comparisons of such values are observation O6, not generated)
            cyc = ir.var(rng.choice(['gCyc', 'gCycObj']))
            text = ir.s(rng.choice(['a=', '', 'x']))
            e = ir.binop('+', text, cyc) if rng.random() < 0.5 else ir.binop('+', cyc, text)
            if rng.random() < 0.3:
                e = ir.binop('+', e, ir.s('!'))
            kinds.append('cyclic-text')
        elif c < 0.25:
            e = classic(rng)
            kinds.append('classic')
        elif c < 0.45:
            for _ in range(20):
                e = operand(rng, 0)
                if 'binary' not in e:
                    e = ir.binop(rng.choice(OPS), e, operand(rng, 1))
                if safe_pow(e):
                    break
            else:
                e = ir.num(1)
            kinds.append('operator')
        elif c < 0.80:
            e = lib_call(rng, names)
            kinds.append('library')
            if not safe_pow(e):
                e = ir.num(2)
        elif c < 0.90:
            e = fetch_call(rng)
            kinds.append('fetch')
        else:
            arr = ir.call('arrayNew', ir.num(3), ir.num(1), ir.num(2), ir.s('x'))
            e = rng.choice([ir.call('arraySort', arr, ir.var('hostTick')), ir.call('arrayIndexOf', arr, ir.var('hostTick')),
                            ir.call('arraySort', arr, ir.var('fnA')),
                            ir.call('arrayLastIndexOf', arr, ir.call('systemPartial', ir.var('hostTick'), ir.num(1)))])
            kinds.append('callback')
        name = f'r{ix % 4}'
        stmts.append(ir.st_expr(e, name))
        stmts.append(ir.st_expr(ir.call('hostObserve', ir.s(f'o{ix}'), ir.var(name))))
    faults = []
    for _ in range(rng.choice([0, 1, 2])):
        f = {'fn': 'hostTick', 'occ': rng.randint(1, 4), 'exc': rng.choice(EXC_NAMES)}
        if f['exc'] == 'ValueArgsError':
            f['rv'] = rng.choice([None, -1])
        faults.append(f)
    ffaults = []
    for _ in range(rng.choice([0, 1, 2])):
        kind = rng.choice(['raise', 'none'])
        f = {'occ': rng.randint(1, 4), 'kind': kind}
        if kind == 'raise':
            from ..env import FETCH_EXC_NAMES
            f['exc'] = rng.choice(FETCH_EXC_NAMES)
        ffaults.append(f)
    files = {'a.txt': {'data': True, 'text': 'A', 'stmts': [], 'broken': False},
             'dir/b.txt': {'data': True, 'text': 'B', 'stmts': [], 'broken': False},
             'http://h/c.txt': {'data': True, 'text': 'C', 'stmts': [], 'broken': False}}
    plan = {'seed': seed, 'family': 'adversarial', 'model': stmts, 'kinds': kinds, 'faults': faults,
            'fetch_faults': ffaults, 'files': files, 'has_log': rng.random() < 0.9, 'has_fetch': rng.random() < 0.9,
            'entry': rng.choice(['script', 'script', 'expression']), 'answers': {}, 'globals': {}, 'expect': expect}
    gen_exec.fixup_plan(plan)
    return plan


def fixup(plan):
    gen_exec.fixup_plan(plan)


# --------------------------------------------------------------------------------------------
# contain family
# --------------------------------------------------------------------------------------------
def host_call_sites(events):
    """(function name, occurrence) of every host call in a fault-free history."""
    from collections import Counter
    occ = Counter()
    out = []
    for ev in events:
        name = {'tick': 'hostTick', 'next': 'hostNext', 'obs': 'hostObserve', 'call': 'hostCall'}.get(ev[0])
        if name:
            occ[name] += 1
            out.append((name, occ[name]))
    return out


def check_escape_value(out, viols, where, producers=None):
    if out.error is not None and out.error[0] == 'host':
        viols.append(Violation(PROP, 'escape', f'host-exception-escapes:{out.error[1]}:{where}',
                               {'exception': out.error[1], 'message': out.error[2]}))
        return False
    bad = []
    producer = None
    n_obs = 0
    for ev in out.events:
        if ev[0] in ('obs', 'tick', 'call', 'ret'):
            found = find_non_values(ev[1])
            if found and not bad and ev[0] == 'obs' and producers is not None and n_obs < len(producers):
                producer = producers[n_obs]
            bad.extend(found)
        if ev[0] == 'obs':
            n_obs += 1
    if out.result is not None:
        bad.extend(find_non_values(out.result))
    for k, v in (out.globals or {}).items():
        bad.extend(find_non_values(v, '$' + k))
    if bad:
        viols.append(Violation(PROP, 'value', f'non-barescript-value:{bad[0][1]}:{producer or where}', {'paths': bad[:4]}))
        return False
    return True


def run(plan, stats):
    if plan.get('family') == 'adversarial':
        return run_adversarial(plan, stats)
    viols = []
    base = dict(plan)
    base['faults'] = []
    ref0 = run_ref(base, limit=0, cap=3000)
    if ref0.error is not None and ref0.error[0] in ('unsupported', 'cap'):
        stats.c['ref_unsupported'] += 1
        return RunResult([], digest_of('unsupported'))
    real0 = run_real(base, limit=0, sim_options=True, max_starts=20000)
    stats.c['evaluations'] += 1
    dig = [real0.summary()]
    check_escape_value(real0, viols, 'fault-free')
    if viols:
        return RunResult(viols, digest_of(dig))
    if compare_outcomes(real0, ref0) is not None:
        stats.c['unattributable'] += 1
        return RunResult([], digest_of(dig))
    # nested independent uses of the library inside host / log callbacks (fault kind interloper)
    viols.extend(interloper_probe(base, stats, PROP, real0,
                                  lambda p: run_real(p, limit=0, sim_options=True, max_starts=20000)))
    if viols:
        return RunResult(viols, digest_of(dig))
    sites = host_call_sites(real0.events)
    rng = stream(plan.get('seed', 0), 'faults')
    rot = plan.get('rot', 0)
    todo = []
    if plan.get('only_fault'):
        todo = [plan['only_fault']]
    elif len(sites) <= 14:
        for ix, (fn, occ) in enumerate(sites):
            for j in range(ROT):
                todo.append({'fn': fn, 'occ': occ, 'exc': EXC_NAMES[(rot + ix + j * 5) % len(EXC_NAMES)]})
        stats.c['programs_enumerated'] += 1
    else:
        for _ in range(10):
            fn, occ = rng.choice(sites)
            todo.append({'fn': fn, 'occ': occ, 'exc': rng.choice(EXC_NAMES)})
        stats.c['programs_sampled'] += 1
    for f in todo:
        if f['exc'] == 'ValueArgsError' and 'rv' not in f:
            f['rv'] = [None, -1, 0, False, 'rv'][(f['occ'] + len(f['fn'])) % 5]
        p = dict(plan)
        p['faults'] = [f]
        ref = run_ref(p, limit=0, cap=3000)
        if ref.error is not None and ref.error[0] in ('unsupported', 'cap'):
            stats.c['ref_unsupported_faulted'] += 1
            continue
        real = run_real(p, limit=0, sim_options=True, max_starts=20000)
        stats.c['evaluations'] += 1
        stats.faults.update(real.fired)
        dig.append(real.summary())
        if not check_escape_value(real, viols, f['fn']):
            viols[-1].detail['fault'] = f
            continue
        diff = compare_outcomes(real, ref)
        if diff is not None:
            a, b = (diff[2], diff[3]) if diff[0] in ('event', 'event-count') else (None, None)
            is_report = any(isinstance(x, tuple) and x and x[0] == 'report' for x in (a, b))
            rule = 'report' if is_report else 'contain'
            sig = ('debug-report-differs' if is_report else 'failure-not-contained-as-specified') + ':' + \
                  ('ValueArgsError' if f['exc'] == 'ValueArgsError' else 'exception')
            viols.append(Violation(PROP, rule, sig, {'fault': f, 'diff': diff, 'debug': plan.get('debug'),
                                                     'has_log': plan.get('has_log')}))
        else:
            if f is todo[0]:
                # … and together with a failing host function
                viols.extend(interloper_probe(p, stats, PROP, real,
                                              lambda q: run_real(q, limit=0, sim_options=True, max_starts=20000)))
            fired = any(e[0] == 'fail' for e in real.events)
            if fired:
                after = [e for e in real.events]
                ixf = next(i for i, e in enumerate(after) if e[0] == 'fail')
                continued = len(after) > ixf + 1
                stats.probes['run_continued_after_contained_failure' if continued else 'failure_was_last_event'] += 1
                stats.distinct['nontrivial'].add(digest_of((f['fn'], f['exc'], plan.get('debug'),
                                                            [e[0] for e in after[max(0, ixf - 2):ixf + 3]],
                                                            real.error[0] if real.error else 'ok')))
                if any(e[0] == 'report' for e in norm_events(real.events)):
                    stats.probes['debug_report_checked'] += 1
        if len(viols) > 4:
            break
    sample = None
    if stats.c['programs_enumerated'] % 151 == 1 and todo:
        sample = {'seed': plan.get('seed'), 'family': 'contain', 'program': ir.render_statements(plan['model'])[:30],
                  'host_call_sites': sites[:10], 'faults_tried': len(todo), 'first_fault': todo[0]}
    return RunResult(viols, digest_of(dig), sample)


# --------------------------------------------------------------------------------------------
# adversarial family
# --------------------------------------------------------------------------------------------
OPTION_SHAPES = [('globals-none', {'globals': None}), ('globals-absent', {'globals': '<absent>'}),
                 ('logFn-none-debug', {'logFn': None}), ('logFn-absent-debug', {'logFn': '<absent>'}),
                 ('fetchFn-none', {'fetchFn': None}), ('urlFn-none', {'urlFn': None}),
                 ('systemPrefix-none', {'systemPrefix': None}), ('debug-none', {'debug': None})]


NO_OPTION_EXPRS = ['sqrt(0 - 1)', 'len(5)', 'indexOf(null, "b")', 'round(1e+308 * 10)', 'fixed(1, 0 - 1)', 'slice("abc", 9)',
                   'hostFn(1)', '1 + unknownFn(2)', 'parseInt("zz", 99)', 'date(1, 2)', 'rept("a", 0 - 1)', '1 / 0 + ln(0)',
                   'if(len(5), 1, charCodeAt("a", 7))', 'max()', 'lower(5) + upper(null)']


def run_no_options(seed, stats):
    from bare_script import parse_expression, evaluate_expression, BareScriptRuntimeError
    r = _random.Random(seed)

    def host_fn(args, options):
        raise KeyError('host function failed')
    for text in r.sample(NO_OPTION_EXPRS, 4):
        expr = parse_expression(text)
        for how, call_ in (('no arguments', lambda e: evaluate_expression(e)),
                           ('options None with locals', lambda e: evaluate_expression(e, None, {'hostFn': host_fn, 'x': 1.0})),
                           ('options None no builtins', lambda e: evaluate_expression(e, None, {'hostFn': host_fn}, False))):
            try:
                call_(expr)
            except BareScriptRuntimeError:
                pass
            except Exception as exc:  # pylint: disable=broad-except
                return (type(exc).__name__, str(exc)[:200], text, how)
    stats.probes['expressions_evaluated_without_an_options_object'] += 1
    return None


ODD_LOCATIONS = ['mem:lib.bare', 'data:x', 'c:lib.bare', 'lib.bare', '/abs/lib.bare', 'http://h/a/b.bare', 'http://h',
                 'dir/sub/inc.bare', 'a//b.bare', 'x/../../y.bare', '../up.bare', './here.bare', 'UP:lib.bare', 'q?x=1/2',
                 'sp ace/f.bare', 'é/𝄞.bare', 'mem:', '/', 'dir/', 'file:///p/q.bare']
ODD_PREFIXES = [None, 'mem:', 'sys', 'sys/', '', '/', 'http://h/sys/', 'c:', '../s/']


def run_odd_includes(seed, stats):
    from bare_script import execute_script, BareScriptRuntimeError, BareScriptParserError
    r = _random.Random(seed)
    first = r.choice(ODD_LOCATIONS)
    second = r.choice(ODD_LOCATIONS + ['next.bare', 'sub/next.bare'])
    prefix = r.choice(ODD_PREFIXES)
    base = r.choice([None, None, 'main.bare', 'mem:main.bare', 'http://h/app/main.bare', '/srv/app/main.bare'])
    system_first = r.random() < 0.3
    fetched = []

    def fetch_fn(request):
        url = request['url']
        fetched.append(url)
        if len(fetched) == 1:
            return f"include {ir.render_string(second)}\ninclude <util.bare>\noddA = 1\n" + lint_bait
        return 'oddB = 2\n' + (lint_bait if r.random() < 0.5 else '')

    # text the static analysis (run on every included script in debug mode, outside any handler) has something to say
    # about: a bare return, unused variables and arguments, a function defined twice, code behind a return
    lint_bait = r.choice(['', '', 'function oddFn(a, b):\n    return\nendfunction\n',
                          'jumpif (oddA) skip\nreturn\nskip:\noddUnused = 2\n',
                          'function oddG():\n    x = 1\nendfunction\nfunction oddG():\nendfunction\nreturn 1\noddDead = 3\n',
                          'function oddH(a, a2...):\n    return a\nendfunction\noddH(1)\n1 + 2\n'])
    logs = []
    options = {'globals': {}, 'fetchFn': fetch_fn, 'maxStatements': 200}
    if r.random() < 0.6:
        options['debug'] = True
        options['logFn'] = logs.append
    if prefix is not None:
        options['systemPrefix'] = prefix
    if base is not None:
        import functools
        from bare_script.options import url_file_relative
        options['urlFn'] = functools.partial(url_file_relative, base)
    model = {'statements': [{'include': {'includes': [dict({'url': first}, **({'system': True} if system_first else {}))]}}]}
    case = {'first': first, 'second': second, 'systemPrefix': prefix, 'base': base, 'system_first': system_first}
    stats.faults['odd_include_location'] += 1
    try:
        execute_script(model, options)
    except (BareScriptRuntimeError, BareScriptParserError) as exc:
        return ('documented', type(exc).__name__, len(fetched))
    except Exception as exc:  # pylint: disable=broad-except
        return ('host', type(exc).__name__, str(exc)[:200], case)
    stats.probes['odd_include_locations_resolved'] += 1
    return ('ok', None, len(fetched))


def pathological_globals():
    """Host-supplied BareScript values that make serialisation / traversal fail inside library code: an array
    nested deeper than the interpreter's recursion limit, the same for objects, and a cyclic array. They are only
    ever passed as function ARGUMENTS (behind the containment wall), never as bare operator operands."""
    import sys
    depth = sys.getrecursionlimit() + 5000
    deep = []
    for _ in range(depth):
        deep = [deep]
    deep_obj = {}
    for _ in range(depth):
        deep_obj = {'k': deep_obj}
    cyc = [1.0]
    cyc.append(cyc)
    cyc_obj = {'n': 1.0}
    cyc_obj['self'] = cyc_obj
    return {'gDeep': deep, 'gDeepObj': deep_obj, 'gCyc': cyc, 'gCycObj': cyc_obj}


def datetime_globals():
    import datetime
    return {'gAware': datetime.datetime(2024, 3, 10, 1, 30, tzinfo=datetime.timezone(datetime.timedelta(hours=5, minutes=45))),
            'gAwareUtc': datetime.datetime(2024, 3, 10, 1, 30, tzinfo=datetime.timezone.utc),
            'gNaive': datetime.datetime(2024, 3, 10, 1, 30), 'gDate': datetime.date(2024, 3, 10),
            # host-supplied numbers at the edges: NaN, the infinities, an int beyond the int->str digit limit
            'gNaN': float('nan'), 'gInf': float('inf'), 'gNegInf': float('-inf'), 'gHuge': 16 ** 4000 - 1}


def run_adversarial(plan, stats):
    import bare_script.library as lib
    viols = []
    plan = dict(plan)
    wants_pathological = 'gDeep' in repr(plan['model']) or 'gCyc' in repr(plan['model'])
    if wants_pathological:
        stats.probes['pathological_argument_value'] += 1
    dig = []
    outs = {}
    n_obs = sum(1 for st in plan['model'] if 'expr' in st and 'function' in st['expr']['expr'] and
                st['expr']['expr']['function']['name'] == 'hostObserve')
    saved_random = lib.random
    try:
        for debug in (False, True):
            lib.random = _random.Random(plan.get('seed', 0))
            p = dict(plan)
            p['debug'] = debug
            # fresh host values for every run: library calls may mutate them (arrayPop(gCyc))
            p['host_globals'] = pathological_globals() if wants_pathological else {}
            p['host_globals'].update(datetime_globals())
            if plan.get('entry') == 'expression':
                out = run_expressions(p)
            else:
                out = run_real(p, limit=0, sim_options=True, max_starts=400000, globals_=dict(p['host_globals']))
            stats.c['evaluations'] += 1
            stats.faults.update(out.fired or {})
            outs[debug] = out
            dig.append(out.summary())
            where = classify_adversarial(plan, out)
            if not check_escape_value(out, viols, where, producers_of(plan)):
                break
            if out.error is not None:
                viols.append(Violation(PROP, 'continue', f'run-ended-with-error:{where}', {'error': out.error}))
                break
            obs = [e for e in out.events if e[0] == 'obs']
            if len(obs) != n_obs:
                viols.append(Violation(PROP, 'continue', f'statements-skipped:{where}', {'observed': len(obs), 'expected': n_obs}))
                break
            for e in obs:
                tag = e[1][1][0]
                want = (plan.get('expect') or {}).get(tag[1:] if isinstance(tag, str) else None)
                if want is not None and e[1][1][1] != want:
                    viols.append(Violation(PROP, 'contain', 'call-of-a-sound-script-function-did-not-give-its-value',
                                           {'observation': tag, 'expected': want, 'got': e[1][1][1], 'entry': plan.get('entry'),
                                            'reports': [x[1] for x in out.events if x[0] == 'log'][:3]}))
                    break
            if viols:
                break
            bad_fetch = check_fetch_shapes(plan, obs) or check_fetch_values(plan, out.events)
            if bad_fetch is not None:
                viols.append(Violation(PROP, 'fetch', 'systemFetch-element-is-not-its-own-resource' if 'fetches' in bad_fetch
                                       else 'systemFetch-result-shape', bad_fetch))
                break
            logs = [e[1] for e in out.events if e[0] == 'log']
            if not debug and any(isinstance(t, str) and t.startswith('BareScript:') for t in logs):
                viols.append(Violation(PROP, 'report', 'failure-report-without-debug', {'lines': logs[:3]}))
                break
        # the same program under an unusual but supported configuration: option keys the runtime reads with
        # "None means absent" given as None, or left out (hostObserve may then be undefined: a documented runtime
        # error); only containment is judged
        if not viols and plan.get('seed', 0) % 3 == 0:
            name, patch = OPTION_SHAPES[(plan.get('seed', 0) // 3) % len(OPTION_SHAPES)]
            p = dict(plan)
            p['debug'] = True
            p['host_globals'] = pathological_globals() if wants_pathological else {}
            p['host_globals'].update(datetime_globals())
            lib.random = _random.Random(plan.get('seed', 0))
            out = run_real(p, limit=0, sim_options=True, max_starts=400000, globals_=dict(p['host_globals']),
                           options_patch=patch)
            stats.c['evaluations'] += 1
            stats.faults['option_shape:' + name] += 1
            dig.append(out.summary())
            check_escape_value(out, viols, 'options:' + name, producers_of(plan))
        # evaluate_expression WITHOUT an options object (the README usage): failing calls still evaluate to null
        if not viols and plan.get('seed', 0) % 4 == 2:
            bad = run_no_options(plan.get('seed', 0), stats)
            stats.c['evaluations'] += 1
            if bad is not None:
                viols.append(Violation(PROP, 'escape', f'host-exception-escapes:{bad[0]}:evaluate_expression-without-options',
                                       {'exception': bad[0], 'message': bad[1], 'expression': bad[2], 'how': bad[3]}))
        # include statements over unusual but legal locations (a scheme without a slash, a bare name, an absolute
        # path, '..' segments, an empty or slash-less system prefix), two levels deep, served by a fetch function that
        # has every location: resolution runs outside the call wrapper, and nothing but the documented errors may
        # come out of it
        if not viols and plan.get('seed', 0) % 4 == 1:
            out = run_odd_includes(plan.get('seed', 0), stats)
            stats.c['evaluations'] += 1
            dig.append(out)
            if out[0] == 'host':
                viols.append(Violation(PROP, 'escape', f'host-exception-escapes:{out[1]}:include-resolution',
                                       {'exception': out[1], 'message': out[2], 'case': out[3]}))
    finally:
        lib.random = saved_random
    if not viols and False in outs and True in outs:
        a = [e for e in outs[False].events if e[0] != 'log']
        b = [e for e in outs[True].events if e[0] != 'log']
        if a != b or outs[False].result != outs[True].result:
            ix = next((i for i, (x, y) in enumerate(zip(a, b)) if x != y), min(len(a), len(b)))
            viols.append(Violation(PROP, 'report', 'debug-mode-changes-results',
                                   {'index': ix, 'plain': a[ix] if ix < len(a) else None, 'debug': b[ix] if ix < len(b) else None}))
        else:
            bad_fv = check_failure_values(plan, outs[True])
            if bad_fv is not None:
                viols.append(Violation(PROP, 'contain', 'reported-failure-with-undocumented-value:' + bad_fv['function'], bad_fv))
            n_null = sum(1 for e in a if e[0] == 'obs' and e[1][1][1] is None)
            n_reports = sum(1 for e in outs[True].events if e[0] == 'log' and str(e[1]).startswith('BareScript: Function'))
            if n_reports:
                stats.probes['library_failure_reported_in_debug'] += 1
            if n_null:
                stats.probes['call_or_operator_yielded_null'] += 1
            stats.distinct['nontrivial'].add(digest_of((plan.get('kinds'), n_null, n_reports, plan.get('entry'),
                                                        [e[1][1][1] if not isinstance(e[1][1][1], list) else e[1][1][1][0]
                                                         for e in a if e[0] == 'obs'])))
    sample = None
    if stats.c['evaluations'] % 301 == 1:
        sample = {'seed': plan.get('seed'), 'family': 'adversarial', 'program': ir.render_statements(plan['model'])[:24]}
    return RunResult(viols, digest_of(dig), sample)


def check_failure_values(plan, out):
    """A library call that REPORTED a failure (debug mode) evaluated to null or to a documented failure value
    (-1, 0, false; objectGet: its default argument). Reports are attributed to the statement during which they
    were logged; only reports naming the statement's own top-level function are judged."""
    tops = producers_of(plan)
    stmt = 0
    reported = set()
    for ev in out.events:
        if ev[0] == 'log' and isinstance(ev[1], str) and ev[1].startswith('BareScript:') and '"' in ev[1]:
            reported.add(ev[1].split('"', 2)[1])
        elif ev[0] == 'obs':
            if stmt < len(tops) and tops[stmt].startswith('function '):
                name = tops[stmt][9:]
                value = ev[1][1][1]
                if name in reported and name not in ('objectGet', 'systemFetch', 'hostTick', 'fnA', 'fnRec', 'if') and \
                        value not in (None, False) and value != ['n', -1] and value != ['n', 0]:
                    return {'function': name, 'statement': stmt, 'value': value}
            stmt += 1
            reported = set()
    return None


def check_fetch_shapes(plan, obs):
    """C05.fetch: a failing / missing / absent fetch makes systemFetch null — element-wise for the
    array form — never a failure of the whole call."""
    pairs = [st for st in plan['model'] if 'expr' in st and st['expr'].get('name', '').startswith('r')]
    for ix, st in enumerate(pairs):
        e = st['expr']['expr']
        if 'function' not in e or e['function']['name'] != 'systemFetch' or ix >= len(obs) or \
                len(e['function'].get('args', [])) != 1:
            continue
        arg = e['function']['args'][0]
        value = obs[ix][1][1][1]

        def valid_item(a):
            if 'string' in a:
                return True
            return 'function' in a and a['function']['name'] == 'objectNew' and len(a['function']['args']) >= 2 and \
                a['function']['args'][0] == {'string': 'url'} and 'string' in a['function']['args'][1]
        if 'function' in arg and arg['function']['name'] == 'arrayNew':
            items = arg['function']['args']
            if all(valid_item(a) for a in items):
                if not (isinstance(value, list) and value[0] == 'L' and len(value[1]) == len(items) and
                        all(v is None or isinstance(v, str) for v in value[1])):
                    return {'statement': ix, 'expected': f'array of {len(items)} strings/nulls', 'observed': value}
        elif valid_item(arg):
            if not (value is None or isinstance(value, str)):
                return {'statement': ix, 'expected': 'string or null', 'observed': value}
    return None


def check_fetch_values(plan, events):
    """C05.fetch, value level: every element of a systemFetch result is the text of the resource whose fetch
    succeeded, or null for the one whose fetch failed / raised / was missing — never another resource's text."""
    pairs = [st for st in plan['model'] if 'expr' in st and st['expr'].get('name', '').startswith('r')]
    texts = {k: v.get('text') for k, v in (plan.get('files') or {}).items()}
    fetches = []
    ix = -1
    for ev in events:
        if ev[0] == 'fetch':
            fetches.append(ev)
            continue
        if ev[0] != 'obs':
            continue
        ix += 1
        mine, fetches = fetches, []
        if ix >= len(pairs):
            break
        e = pairs[ix]['expr']['expr']
        if 'function' not in e or e['function']['name'] != 'systemFetch' or len(e['function'].get('args', [])) != 1:
            continue
        value = ev[1][1][1]
        arg = e['function']['args'][0]
        is_array = 'function' in arg and arg['function']['name'] == 'arrayNew'
        got = value[1] if is_array and isinstance(value, list) and value[0] == 'L' else [value]
        if not all(v is None or isinstance(v, str) for v in got) or len(mine) != len(got):
            continue         # shapes are check_fetch_shapes' business; invalid requests fetch nothing
        want = [texts.get(f[1]) if f[2] == 'ok' else None for f in mine]
        if got != want:
            return {'statement': ix, 'fetches': [list(f[1:]) for f in mine], 'expected': want, 'observed': got}
    return None


def producers_of(plan):
    """For each observed statement of an adversarial program: what produced the observed value."""
    out = []
    for st in plan['model']:
        if 'expr' in st and st['expr'].get('name', '').startswith('r'):
            (k, v), = st['expr']['expr'].items()
            out.append(f'function {v["name"]}' if k == 'function' else (f'operator {v["op"]}' if k == 'binary' else k))
    return out


def classify_adversarial(plan, out):
    """Name the statement that was executing when the run stopped (for signatures)."""
    n_done = sum(1 for e in out.events if e[0] == 'obs')
    pairs = [st for st in plan['model'] if 'expr' in st and st['expr'].get('name', '').startswith('r')]
    if n_done < len(pairs):
        e = pairs[n_done]['expr']['expr']
        (k, v), = e.items()
        if k == 'binary':
            return f'operator {v["op"]}'
        if k == 'function':
            return f'function {v["name"]}'
        return k
    return 'end'


def run_expressions(plan):
    """The evaluate_expression entry point: each assigned expression is evaluated on its own."""
    from bare_script import evaluate_expression, BareScriptRuntimeError, BareScriptParserError
    from ..realrun import Outcome, user_globals_canon
    from ..refvm import HOST_NAMES
    out = Outcome()
    env = Env(plan, 'real')

    def host_adapter(name):
        def host_fn(args, options):
            try:
                return env.host(name, args, lambda f, a: f(a, options), options)
            except HostFailure as hf:
                raise make_exception(hf.exc_name, hf.message, hf.return_value) from None
        return host_fn

    def fetch_fn(request):
        try:
            return env.fetch(request['url'])
        except HostFailure as hf:
            raise make_exception(hf.exc_name, hf.message) from None

    globals_ = {name: host_adapter(name) for name in HOST_NAMES}
    globals_.update(plan.get('host_globals') or {})
    from bare_script.library import SCRIPT_FUNCTIONS
    for k, v in SCRIPT_FUNCTIONS.items():
        globals_.setdefault(k, v)
    options = SimOptions({'globals': globals_, 'statementCount': 0})
    if plan.get('debug'):
        options['debug'] = True
    if plan.get('has_log', True):
        options['logFn'] = env.log
    if plan.get('has_fetch', True):
        options['fetchFn'] = fetch_fn
    try:
        for st in plan['model']:
            (k, v), = st.items()
            if k == 'function':
                import functools
                from bare_script.runtime import execute_script
                execute_script({'statements': [copy.deepcopy(st)]}, options)
                continue
            value = evaluate_expression(copy.deepcopy(v['expr']), options, None, plan.get('seed', 0) % 2 == 0)
            if v.get('name'):
                globals_[v['name']] = value
    except BareScriptRuntimeError as exc:
        out.error = ('rt', str(exc))
    except BareScriptParserError as exc:
        out.error = ('parse', str(exc))
    except Exception as exc:  # pylint: disable=broad-except
        out.error = ('host', type(exc).__name__, str(exc)[:200])
    except SimBaseError as exc:
        out.error = ('host', 'SimBaseError', str(exc)[:200])
    out.events = env.events
    out.fired = env.fired
    out.globals = user_globals_canon(globals_, lambda k, v: k in HOST_NAMES or (k in SCRIPT_FUNCTIONS and v is SCRIPT_FUNCTIONS[k]))
    return out


def simplify(plan, v):
    out = []
    if plan.get('family') == 'contain' and isinstance(v.detail, dict) and v.detail.get('fault') and \
            plan.get('only_fault') != v.detail['fault']:
        c = copy.deepcopy(plan)
        c['only_fault'] = v.detail['fault']
        out.append(c)
    return out


def simulated_time(total):
    return {'unit': 'executions simulated (each with one planned fault or adversarial program)',
            'value': int(total.c.get('evaluations', 0))}
