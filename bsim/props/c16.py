"""C16 — datetime construction, arithmetic and ISO text are correct in any time zone.

Every ISO format/parse and every normalisation of aware datetimes asks the PROCESS for its local
zone, and datetimeNow/Today ask it for the time. Both are seams the simulator owns here: per run one
zone is installed (TZ + tzset) and a simulated clock (bare_script.library.datetime rebound to a proxy)
is started near a DST transition / leap day / month, year or century end of that zone and advanced by
seeded steps and jumps, landing in gaps' neighbourhoods and inside folds. A script client constructs,
reads, adds, subtracts, formats and parses datetimes; every result is observed by a host function
that evaluates the oracles (RefCal: proleptic Gregorian arithmetic by datetime/timedelta; the zone by
libc via CPython with zoneinfo as second opinion — instants where they disagree are skipped and
counted, never flagged).
"""
import copy
import datetime as _dt
import os
import re
import time
import zoneinfo

from .. import ir
from ..core import Stats, Violation, stream, digest_of, canon, SimOptions
from ..driver import RunResult

PROP = 'C16'
LEVEL = 'exploration'
RULE = ('seeded (zone, clock trajectory, operation list) runs: 14 zones incl. the 8 of the quantifier, clock started '
        'near DST transitions / leap days / period ends in years 100-9000; one evaluation = one observed operation '
        'result checked by its oracle; non-trivial = the operation touched a roll-over, a transition neighbourhood, a '
        'fold/gap or a non-UTC offset; distinct by digest(zone, operation kind, roll-over/transition class, outcome)')
COMPONENTS = {
    'real': ['bare_script.library datetime* functions', 'bare_script.value.value_string / value_parse_datetime / '
             'value_normalize_datetime', 'bare_script.runtime datetime +/- operators', 'CPython datetime + libc '
             'localtime + system tz database (the configuration under test)'],
    'stub': ['wall clock: bare_script.library.datetime rebound to a proxy reading the simulated clock',
             'time zone: os.environ[TZ] + time.tzset() per run', 'hostObserve / hostClock host functions'],
}
ASSUMPTIONS = [
    'RefCal: datetimeNew(y,m,d,h,mi,s,ms) == first day of the normalised month + (d-1) days + time, by datetime/timedelta',
    'the process zone is what libc reports through CPython; zoneinfo is a second opinion and instants where the two '
    'disagree are skipped (counted in the evidence)',
    'round trip is demanded only for local times that exist in the zone and have a whole-minute UTC offset',
    'time components are bounded to +-5000 and days to +-10000 (datetimeNew loops over months; see DESIGN O1)',
]

ZONES = ['UTC', 'America/New_York', 'Europe/London', 'Asia/Kolkata', 'Asia/Kathmandu', 'Australia/Lord_Howe',
         'Pacific/Chatham', 'Etc/GMT+12', 'America/St_Johns', 'Africa/Casablanca', 'Europe/Dublin', 'Asia/Tehran',
         'Antarctica/Troll', 'Etc/GMT-14']
EPOCH = _dt.datetime(1970, 1, 1, tzinfo=_dt.timezone.utc)


def budget(tier):
    if tier == 'thorough':
        return {'seeds': 4000000, 'chunk': 4000, 'wall_cap': 1200, 'extra': {'big': True}}
    return {'seeds': 120000, 'chunk': 500, 'wall_cap': 240, 'extra': None}


# --------------------------------------------------------------------------------------------
# zone helpers
# --------------------------------------------------------------------------------------------
def set_zone(zone):
    os.environ['TZ'] = zone
    time.tzset()


def utc_us(aware):
    delta = aware - EPOCH
    return (delta.days * 86400 + delta.seconds) * 1000000 + delta.microseconds


def transitions_in_year(zi, year):
    """UTC instants (seconds) at which the zone's offset changes during `year` (zoneinfo)."""
    out = []
    try:
        t = _dt.datetime(year, 1, 1, tzinfo=_dt.timezone.utc)
        end = _dt.datetime(year + 1, 1, 1, tzinfo=_dt.timezone.utc) if year < 9999 else None
    except ValueError:
        return out
    step = _dt.timedelta(days=1)
    prev = t.astimezone(zi).utcoffset()
    while end is not None and t < end:
        nxt = t + step
        off = nxt.astimezone(zi).utcoffset()
        if off != prev:
            lo, hi = t, nxt
            while hi - lo > _dt.timedelta(seconds=1):
                mid = lo + (hi - lo) / 2
                mid = mid.replace(microsecond=0)
                if mid <= lo:
                    break
                if mid.astimezone(zi).utcoffset() == prev:
                    lo = mid
                else:
                    hi = mid
            out.append(utc_us(hi) // 1000000)
            prev = off
        t = nxt
    return out


# --------------------------------------------------------------------------------------------
# plan
# --------------------------------------------------------------------------------------------
VALID_OFFSETS = ['Z', '+00:00', '+05:45', '-03:30', '+13:45', '-12:00', '+14:00', '-00:30', '+10:30', '+01:00', '-05:00',
                 '+23:59']
INVALID_TEXTS = ['2024-02-30', '2024-13-01', '2023-02-29', '2024-00-10', '2024-01-01T24:00:00Z', '2024-01-01T00:00:00',
                 '2024-01-01T00:00:00Zjunk', '2024-1-1', '2024-01-01 00:00:00Z', '2024-01-01T00:60:00Z',
                 '2024-01-01T00:00:61Z', '2024-01-01T00:00:00+24:00', '2024-01-01T00:00:00.1234567Z', '', 'now',
                 '0000-01-01', '2024-01-01T00:00:00.Z', '2024-01-01T00:00:00+0530', 'x2024-01-01', '2024-02-30T10:00:00Z',
                 '2024-01-01T00:00:00+05:60', '20240101', '2024-01-01T', ' 2024-01-01']


def gen(seed, tier, extra=None):
    rng = stream(seed, 'plan')
    zone = rng.choice(ZONES)
    zi = zoneinfo.ZoneInfo(zone)
    c = rng.random()
    if c < 0.65:
        year = rng.randint(1971, 2037)
    elif c < 0.8:
        year = rng.choice([1900, 1916, 1945, 1969, 2038, 2100, 2400, 3000, 8999])
    else:
        year = rng.randint(100, 8999)
    trans = transitions_in_year(zi, year) if 1800 < year < 9000 else []
    c = rng.random()
    if trans and c < 0.6:
        start_s = rng.choice(trans) + rng.choice([-7200, -3600, -1800, -61, -1, 0, 1, 59, 1799, 3600, 5400])
    elif c < 0.8:
        # calendar boundaries: leap day, month / year / century ends (UTC instants near them)
        month, day = rng.choice([(2, 28), (2, 29), (12, 31), (1, 1), (3, 1), (6, 30), (10, 31)])
        try:
            base = _dt.datetime(year, month, day, 23, 59, 58, tzinfo=_dt.timezone.utc)
        except ValueError:
            base = _dt.datetime(year, 3, 1, 0, 0, 0, tzinfo=_dt.timezone.utc)
        start_s = utc_us(base) // 1000000 + rng.randint(-86400, 86400)
    else:
        start_s = utc_us(_dt.datetime(year, rng.randint(1, 12), rng.randint(1, 28), rng.randint(0, 23), rng.randint(0, 59),
                                      tzinfo=_dt.timezone.utc)) // 1000000
    start_us = start_s * 1000000 + rng.choice([0, 0, 1000, 999000, 123456, 500])
    ops = []
    n_ops = rng.randint(6, 30)
    n_dt = 0
    for _ in range(n_ops):
        k = rng.random()
        if k < 0.14:
            ops.append(['clock', rng.choice([1, 999, 1000, 60000, 3599000, 3600000, 1800000, 86400000, 5400000,
                                             rng.randint(1, 40 * 86400000)])])
        elif k < 0.26:
            ops.append(['now'])
            n_dt += 1
        elif k < 0.30:
            ops.append(['today'])
            n_dt += 1
        elif k < 0.55:
            style = rng.random()
            if style < 0.5:
                comps = [rng.randint(100, 9000), rng.randint(-30, 40), rng.randint(-10000, 10000)]
                for _i in range(rng.choice([0, 1, 2, 3, 4, 4])):
                    comps.append(rng.randint(-5000, 5000))
                # the ends of the quantifier's ranges, alone and together
                re_ = stream(seed, f'edge:{len(ops)}')
                if re_.random() < 0.25:
                    edges = [[100, 101, 102, 103, 8997, 8998, 8999, 9000], [-30, -29, -24, -13, -12, -11, -1, 0, 1, 12, 13, 24, 36, 39, 40],
                             [-10000, -9999, -9800, -1, 0, 1, 9800, 9999, 10000]] + [[-5000, -4999, -1, 0, 1, 4999, 5000]] * 4
                    for ci in range(len(comps)):
                        if re_.random() < 0.5:
                            comps[ci] = re_.choice(edges[ci])
            else:
                # near the clock's year with mild overflow: lands in gaps, folds, month ends
                comps = [year, rng.randint(0, 13), rng.choice([0, 1, 28, 29, 30, 31, 32, rng.randint(-40, 70)])]
                comps += [rng.choice([0, 1, 2, 3, 23, 24, 25, -1]), rng.choice([0, 29, 30, 59, 60, -1, 90]),
                          rng.choice([0, 59, 60, -1, 3600]), rng.choice([0, 1, 999, 1000, -1, 1500])][:rng.randint(0, 4)]
            ops.append(['new', comps])
            n_dt += 1
        elif k < 0.70 and n_dt:
            n = rng.choice([1, -1, 999, 1000, 86400000, -86400000, 3600000, rng.randint(-10 ** 12, 10 ** 12),
                            rng.randint(-10 ** 7, 10 ** 7), 31536000000, 10 ** 12, -10 ** 12])
            ops.append(['arith', rng.randrange(n_dt), n])
            n_dt += 1
        elif k < 0.76 and n_dt >= 2:
            ops.append(['diff', rng.randrange(n_dt), rng.randrange(n_dt)])
        elif k < 0.88 and n_dt:
            ops.append(['iso', rng.randrange(n_dt)])
        elif k < 0.95:
            if rng.random() < 0.6:
                y = rng.choice([year, year, 2024, 1999, 100, 8999])
                text = f'{y:04d}-{rng.randint(1, 12):02d}-{rng.randint(1, 28):02d}'
                if rng.random() < 0.8:
                    frac = rng.choice(['', '', '.5', '.25', '.123', '.1234', '.12345', '.999999', '.000001'])
                    text += f'T{rng.randint(0, 23):02d}:{rng.randint(0, 59):02d}:{rng.randint(0, 59):02d}{frac}' \
                            f'{rng.choice(VALID_OFFSETS)}'
                ops.append(['parse', text, True])
            else:
                ops.append(['parse', rng.choice(INVALID_TEXTS), False])
        else:
            ops.append(['host', rng.choice(['date', 'aware', 'aware2', 'awareutc'])])
            n_dt += 1
    # the process zone changing between two calls (an embedding application calling tzset): 20 % of the runs switch
    # zone once or twice (and often back), and re-format datetimes that were already formatted under the old zone
    rz = stream(seed, 'tz')
    if rz.random() < 0.2:
        creators = ('now', 'today', 'new', 'arith', 'host')
        for z2 in [rz.choice(ZONES) for _ in range(rz.choice([1, 1, 2]))] + ([zone] if rz.random() < 0.5 else []):
            pos = rz.randint(1, len(ops))
            have = sum(1 for op in ops[:pos] if op[0] in creators)
            extra_ops = [['zone', z2]]
            if have:
                formatted = [op[1] for op in ops[:pos] if op[0] == 'iso']
                for _ in range(rz.randint(1, 3)):
                    extra_ops.append(['iso', rz.choice(formatted) if formatted and rz.random() < 0.7 else rz.randrange(have)])
            ops[pos:pos] = extra_ops
    # a calendar / time-series loop: datetimeNew called several times in a row from the same year and month with one
    # component stepping (mostly upwards, far past its range), the way scripts build calendars — every call of the
    # series is judged on its own, so anything the library remembers from one call to the next shows (appended at the
    # end: the datetime indexes used by the ops above stay what they were)
    rs = stream(seed, 'series')
    if rs.random() < 0.3:
        base = [rs.choice([year, rs.randint(100, 8999)]), rs.randint(1, 12), rs.choice([1, 15, 28, 29, 31, rs.randint(20, 60)])]
        base += [rs.randint(0, 23), rs.randint(0, 59), rs.randint(0, 59), rs.randint(0, 999)][:rs.choice([0, 0, 1, 3, 4])]
        ci = rs.choice([2, 2, 2, 1] + list(range(1, len(base))))
        value = base[ci]
        for _ in range(rs.randint(3, 7)):
            comps = list(base)
            comps[ci] = value
            ops.append(['new', comps])
            step = rs.choice([0, 1, 7, 28, 30, 31, 40, 59, 61, 365, rs.randint(1, 400)])
            value += step if rs.random() < 0.8 else -step
            value = max(-5000 if ci > 2 else (-10000 if ci == 2 else -30), min(5000 if ci > 2 else (10000 if ci == 2 else 40), value))
    return {'seed': seed, 'zone': zone, 'start_us': start_us, 'ops': ops, 'transitions': trans[:4]}


# --------------------------------------------------------------------------------------------
# the simulated clock
# --------------------------------------------------------------------------------------------
class SimClock:
    def __init__(self, start_us):
        self.us = start_us
        self.first = start_us

    def local_now(self):
        return _dt.datetime.fromtimestamp(self.us // 1000000) + _dt.timedelta(microseconds=self.us % 1000000)


class _ClassProxy:
    def __init__(self, real, **extra):
        self._real = real
        self._extra = extra

    def __call__(self, *a, **k):
        return self._real(*a, **k)

    def __getattr__(self, name):
        if name in self._extra:
            return self._extra[name]
        return getattr(self._real, name)


class ClockModule:
    """Stands in for the `datetime` module inside bare_script.library."""

    def __init__(self, clock):
        def now(tz=None):
            if tz is None:
                return clock.local_now()
            return _dt.datetime.fromtimestamp(clock.us // 1000000, tz) + _dt.timedelta(microseconds=clock.us % 1000000)
        self.datetime = _ClassProxy(_dt.datetime, now=now, utcnow=lambda: now(_dt.timezone.utc).replace(tzinfo=None))
        self.date = _ClassProxy(_dt.date, today=lambda: clock.local_now().date())

    def __getattr__(self, name):
        return getattr(_dt, name)


# --------------------------------------------------------------------------------------------
# reference calendar / zone
# --------------------------------------------------------------------------------------------
def refcal_new(comps):
    c = list(comps) + [0] * (7 - len(comps))
    y, m, d, h, mi, s, ms = c
    total = y * 12 + (m - 1)
    year, month = total // 12, total % 12 + 1
    try:
        return _dt.datetime(year, month, 1) + _dt.timedelta(days=d - 1, hours=h, minutes=mi, seconds=s, milliseconds=ms)
    except (ValueError, OverflowError):
        return None


def trunc_ms(d):
    return d.replace(microsecond=(d.microsecond // 1000) * 1000)


def libc_utc_us(d, fold=None):
    """UTC instant of naive local d by libc (via CPython astimezone)."""
    if fold is not None:
        d = d.replace(fold=fold)
    return utc_us(d.astimezone(_dt.timezone.utc))


def zi_utc_us(d, zi):
    return utc_us(d.replace(tzinfo=zi).astimezone(_dt.timezone.utc))


def exists_locally(d):
    for fold in (0, 1):
        u = d.replace(fold=fold).astimezone(_dt.timezone.utc)
        if u.astimezone().replace(tzinfo=None) == d.replace(fold=0):
            return True
    return False


def whole_minute_offset(d):
    off = d.astimezone().utcoffset()
    return off.microseconds == 0 and off.seconds % 60 == 0


_ISO_RE = re.compile(r'^\d{4}-\d{2}-\d{2}T\d{2}:\d{2}:\d{2}(\.\d{3})?[+-]\d{2}:\d{2}$')


# --------------------------------------------------------------------------------------------
# run
# --------------------------------------------------------------------------------------------
def build_model(plan):
    stmts = []
    dts = []      # variable names of datetime-valued results

    def obs(tag, expr):
        stmts.append(ir.st_expr(ir.call('hostObserve', ir.s(tag), expr)))

    def lit(n):
        return ir.num(n) if n >= 0 else ir.unop('-', ir.num(-n))

    for ix, op in enumerate(plan['ops']):
        kind = op[0]
        name = f'v{len(dts)}'
        if kind == 'clock':
            stmts.append(ir.st_expr(ir.call('hostClock', lit(op[1]))))
        elif kind == 'zone':
            stmts.append(ir.st_expr(ir.call('hostZone', ir.s(op[1]))))
        elif kind == 'now':
            stmts.append(ir.st_expr(ir.call('datetimeNow'), name))
            obs(f'{ix}:now', ir.var(name))
            dts.append(name)
        elif kind == 'today':
            stmts.append(ir.st_expr(ir.call('datetimeToday'), name))
            obs(f'{ix}:today', ir.var(name))
            dts.append(name)
        elif kind == 'new':
            stmts.append(ir.st_expr(ir.call('datetimeNew', *[lit(c) for c in op[1]]), name))
            obs(f'{ix}:new', ir.var(name))
            obs(f'{ix}:get', ir.call('arrayNew', *[ir.call(g, ir.var(name)) for g in
                                                   ('datetimeYear', 'datetimeMonth', 'datetimeDay', 'datetimeHour',
                                                    'datetimeMinute', 'datetimeSecond', 'datetimeMillisecond')]))
            dts.append(name)
        elif kind == 'arith':
            src = f'v{op[1]}'
            e = ir.binop('+', ir.var(src), lit(op[2])) if ix % 2 == 0 else ir.binop('+', lit(op[2]), ir.var(src))
            stmts.append(ir.st_expr(e, name))
            obs(f'{ix}:arith', ir.call('arrayNew', ir.var(src), ir.var(name), ir.binop('-', ir.var(name), ir.var(src))))
            dts.append(name)
        elif kind == 'diff':
            a, b = f'v{op[1]}', f'v{op[2]}'
            obs(f'{ix}:diff', ir.call('arrayNew', ir.var(a), ir.var(b), ir.binop('-', ir.var(a), ir.var(b))))
        elif kind == 'iso':
            src = f'v{op[1]}'
            obs(f'{ix}:iso', ir.call('arrayNew', ir.var(src), ir.call('datetimeISOFormat', ir.var(src)),
                                     ir.call('datetimeISOParse', ir.call('datetimeISOFormat', ir.var(src))),
                                     ir.call('datetimeISOFormat', ir.var(src), ir.var('true')),
                                     ir.call('stringNew', ir.var(src))))
        elif kind == 'parse':
            obs(f'{ix}:parse', ir.call('datetimeISOParse', ir.s(op[1])))
        elif kind == 'host':
            stmts.append(ir.st_expr(ir.var('g_' + op[1]), name))
            obs(f'{ix}:host', ir.call('arrayNew', ir.binop('+', ir.var(name), ir.num(0)),
                                      ir.call('datetimeISOFormat', ir.var(name)),
                                      ir.call('arrayNew', *[ir.call(g, ir.var(name)) for g in
                                                            ('datetimeYear', 'datetimeMonth', 'datetimeDay', 'datetimeHour',
                                                             'datetimeMinute', 'datetimeSecond', 'datetimeMillisecond')])))
            dts.append(name)
    return {'statements': stmts}


def run(plan, stats):
    import bare_script.library as lib
    from bare_script import execute_script
    from bare_script.runtime import BareScriptRuntimeError
    viols = []
    zone = plan['zone']
    set_zone(zone)
    zi = zoneinfo.ZoneInfo(zone)
    clock = SimClock(plan['start_us'])
    trans = plan.get('transitions') or []
    observed = []
    host_values = {
        'g_date': _dt.date(2024, 2, 29),
        'g_aware': _dt.datetime(2024, 3, 10, 1, 30, 15, 250000, tzinfo=_dt.timezone(_dt.timedelta(hours=5, minutes=45))),
        'g_aware2': _dt.datetime(1999, 12, 31, 23, 59, 59, 999000, tzinfo=_dt.timezone(_dt.timedelta(hours=-3, minutes=-30))),
        'g_awareutc': _dt.datetime.fromtimestamp(plan['start_us'] // 1000000, _dt.timezone.utc),
    }

    def fail(rule, sig, detail):
        detail['zone'] = zone
        viols.append(Violation(PROP, rule, sig, detail))

    def near_transition(us):
        return any(abs(us // 1000000 - t) <= 7200 for t in trans)

    def nontrivial(kind, cls, outcome):
        stats.distinct['nontrivial'].add(digest_of((zone, kind, cls, outcome, plan['start_us'] // (86400 * 365 * 10 ** 6))))

    def check_rt_format(tag, d, text, back, date_text, as_string):
        """d: naive local datetime value; text: ISO format; back: parse(format(d))."""
        if not isinstance(d, _dt.datetime):
            return
        if not isinstance(text, str):
            fail('format', 'format-not-a-string', {'d': str(d), 'text': canon(text)})
            return
        if as_string != text:
            fail('format', 'stringNew-differs-from-datetimeISOFormat', {'d': str(d), 'iso': text, 'string': as_string})
            return
        if date_text != d.date().isoformat():
            fail('format', 'iso-date-form-wrong', {'d': str(d), 'text': date_text})
            return
        exists = exists_locally(d)
        whole = whole_minute_offset(d)
        if not exists:
            stats.c['skipped_nonexistent_local_time'] += 1
            stats.probes['operation_on_nonexistent_local_time'] += 1
            return
        if not whole:
            stats.c['skipped_offset_with_seconds'] += 1
            return
        if not _ISO_RE.match(text):
            fail('format', 'iso-text-shape', {'d': str(d), 'text': text})
            return
        has_ms = d.microsecond // 1000 != 0
        if ('.' in text) != (d.microsecond != 0):
            # the formatter prints milliseconds when there are sub-second digits
            pass
        try:
            aware = _dt.datetime.fromisoformat(text)
        except ValueError:
            fail('format', 'iso-text-unparseable', {'d': str(d), 'text': text})
            return
        inst_libc = libc_utc_us(d)
        inst_zi = zi_utc_us(d, zi)
        if inst_libc != inst_zi:
            stats.c['skipped_libc_zoneinfo_disagree'] += 1
        else:
            if utc_us(aware) != (inst_libc // 1000) * 1000:
                fail('format', 'iso-text-denotes-another-instant',
                     {'d': str(d), 'fold': d.fold, 'text': text, 'expected_utc_us': (inst_libc // 1000) * 1000,
                      'text_utc_us': utc_us(aware)})
                return
        if not isinstance(back, _dt.datetime) or back.replace(fold=0) != trunc_ms(d).replace(fold=0):
            fail('roundtrip', 'parse-of-format-differs', {'d': str(d), 'fold': d.fold, 'text': text, 'back': str(back)})
            return
        stats.probes['roundtrip_checked'] += 1
        if d.fold == 1 or libc_utc_us(d, 0) != libc_utc_us(d, 1):
            stats.probes['roundtrip_inside_a_fold'] += 1
            nontrivial('iso', 'fold', 'ok')
        elif near_transition(inst_libc):
            nontrivial('iso', 'near-transition', 'ok')
        elif d.astimezone().utcoffset() != _dt.timedelta(0):
            nontrivial('iso', 'offset', str(d.astimezone().utcoffset()))

    harness = []

    def host_observe(args, options):
        try:
            return host_observe_inner(args)
        except Exception:  # pylint: disable=broad-except
            import traceback
            harness.append(traceback.format_exc()[-1500:])
            return None

    def host_observe_inner(args):
        tag, value = args[0], args[1] if len(args) > 1 else None
        ix, kind = tag.split(':')
        op = plan['ops'][int(ix)]
        stats.c['evaluations'] += 1
        observed.append((tag, canon(value)))
        if viols:
            return None
        if kind == 'now' or kind == 'today':
            exp_libc = clock.local_now()
            exp_zi = (_dt.datetime.fromtimestamp(clock.us // 1000000, zi) + _dt.timedelta(microseconds=clock.us % 1000000)
                      ).replace(tzinfo=None)
            if exp_libc != exp_zi:
                stats.c['skipped_libc_zoneinfo_disagree'] += 1
                return None
            exp = exp_zi if kind == 'now' else _dt.datetime(exp_zi.year, exp_zi.month, exp_zi.day)
            if not isinstance(value, _dt.datetime) or value != exp:
                fail('now', f'datetime{kind.capitalize()}-differs-from-simulated-clock',
                     {'clock_utc_us': clock.us, 'expected': str(exp), 'got': str(value)})
            else:
                stats.probes['now_checked'] += 1
                if near_transition(clock.us):
                    stats.probes['now_near_transition'] += 1
                    nontrivial(kind, 'near-transition', 'ok')
        elif kind == 'new':
            exp = refcal_new(op[1])
            if exp is None:
                if value is not None:
                    fail('rollover', 'datetimeNew-out-of-range-not-null', {'components': op[1], 'got': str(value)})
            elif not isinstance(value, _dt.datetime) or value != exp:
                fail('rollover', classify_new(op[1]), {'components': op[1], 'expected': str(exp), 'got': str(value)})
            else:
                c = list(op[1]) + [0] * (7 - len(op[1]))
                over = not (1 <= c[1] <= 12 and 1 <= c[2] <= 28 and 0 <= c[3] < 24 and 0 <= c[4] < 60 and 0 <= c[5] < 60
                            and 0 <= c[6] < 1000)
                if over:
                    stats.probes['datetimeNew_rollover_checked'] += 1
                    nontrivial('new', classify_new(op[1]), 'ok')
        elif kind == 'get':
            d = refcal_new(op[1])
            if d is not None:
                exp = [d.year, d.month, d.day, d.hour, d.minute, d.second, d.microsecond // 1000]
                got = value
                if not isinstance(got, list) or [x for x in got] != exp or any(isinstance(x, bool) for x in got):
                    fail('rollover', 'getters-differ-from-normalised-instant', {'components': op[1], 'expected': exp,
                                                                                 'got': canon(got)})
        elif kind == 'arith':
            src, res, back = value
            n = op[2]
            if isinstance(src, _dt.date) and not isinstance(src, _dt.datetime):
                src = _dt.datetime(src.year, src.month, src.day)
            if isinstance(src, _dt.datetime):
                base = src
                if src.tzinfo is not None:
                    base = src.astimezone().replace(tzinfo=None)
                try:
                    exp = base + _dt.timedelta(milliseconds=n)
                except OverflowError:
                    exp = None
                if exp is None:
                    if res is not None:
                        fail('arith', 'out-of-range-sum-not-null', {'d': str(src), 'n': n, 'got': str(res)})
                elif not isinstance(res, _dt.datetime) or res != exp:
                    fail('arith', 'd-plus-n-wrong', {'d': str(src), 'n': n, 'expected': str(exp), 'got': str(res)})
                elif back != n or isinstance(back, bool):
                    fail('arith', 'd-plus-n-minus-d-is-not-n', {'d': str(src), 'n': n, 'got': canon(back)})
                else:
                    stats.probes['arith_checked'] += 1
                    if abs(n) >= 10 ** 11:
                        nontrivial('arith', 'huge', 'ok')
        elif kind == 'diff':
            a, b, diff = value
            if isinstance(a, _dt.datetime) and isinstance(b, _dt.datetime) and a.tzinfo is None and b.tzinfo is None:
                delta = a - b
                exp_ms = (delta.days * 86400000 + delta.seconds * 1000) + delta.microseconds / 1000
                exp = int(exp_ms + (0.5 if exp_ms >= 0 else -0.5))
                # sub-millisecond parts may round either way (the property fixes integral differences only)
                if not isinstance(diff, (int, float)) or isinstance(diff, bool) or diff != int(diff) or \
                        abs(diff - exp_ms) > 0.5 + 1e-6 + abs(exp_ms) * 1e-15:
                    fail('arith', 'difference-wrong', {'a': str(a), 'b': str(b), 'expected_ms': exp, 'got': canon(diff)})
        elif kind == 'iso':
            d, text, back, date_text, as_string = value
            if isinstance(d, _dt.date) and not isinstance(d, _dt.datetime):
                d = _dt.datetime(d.year, d.month, d.day)
            elif isinstance(d, _dt.datetime) and d.tzinfo is not None:
                d = d.astimezone().replace(tzinfo=None)
            check_rt_format(tag, d, text, back, date_text, as_string)
        elif kind == 'parse':
            text, valid = op[1], op[2]
            if not valid:
                if value is not None:
                    fail('parse', 'invalid-text-not-null', {'text': text, 'got': str(value)})
                else:
                    stats.probes['invalid_text_gave_null'] += 1
            else:
                if 'T' not in text:
                    exp = _dt.datetime.strptime(text, '%Y-%m-%d')
                    exp2 = exp
                else:
                    aware = _dt.datetime.fromisoformat(text.replace('Z', '+00:00'))
                    exp = trunc_ms(aware.astimezone().replace(tzinfo=None))
                    exp2 = trunc_ms(aware.astimezone(zi).replace(tzinfo=None))
                if exp != exp2:
                    stats.c['skipped_libc_zoneinfo_disagree'] += 1
                elif not isinstance(value, _dt.datetime) or value.replace(fold=0) != exp.replace(fold=0):
                    fail('parse', 'valid-text-parsed-wrong', {'text': text, 'expected': str(exp), 'got': str(value)})
                else:
                    stats.probes['valid_text_parsed'] += 1
                    nontrivial('parse', text[19:] if 'T' in text else 'date', 'ok')
        elif kind == 'host':
            hv = host_values['g_' + op[1]]
            if isinstance(hv, _dt.datetime):
                exp = hv.astimezone().replace(tzinfo=None)
                exp2 = hv.astimezone(zi).replace(tzinfo=None)
            else:
                exp = exp2 = _dt.datetime(hv.year, hv.month, hv.day)
            if exp != exp2:
                stats.c['skipped_libc_zoneinfo_disagree'] += 1
            else:
                plus0, text, parts = value
                expp = [exp.year, exp.month, exp.day, exp.hour, exp.minute, exp.second, exp.microsecond // 1000]
                if plus0 != exp:
                    fail('normalise', f'host-{op[1]}-plus-zero-wrong', {'value': str(hv), 'expected': str(exp), 'got': str(plus0)})
                elif parts != expp:
                    fail('normalise', f'host-{op[1]}-getters-wrong', {'value': str(hv), 'expected': expp, 'got': canon(parts)})
                else:
                    back = _dt.datetime.fromisoformat(text) if isinstance(text, str) and _ISO_RE.match(text) else None
                    ambiguous = libc_utc_us(exp, 0) != libc_utc_us(exp, 1)
                    if ambiguous:
                        # a naive local value cannot say which occurrence of a repeated hour it is; the property
                        # does not speak about host-supplied aware datetimes inside a fold
                        stats.c['skipped_host_value_in_fold'] += 1
                    elif whole_minute_offset(exp) and exists_locally(exp) and \
                            (back is None or utc_us(back) != (utc_us(hv) // 1000) * 1000 if isinstance(hv, _dt.datetime) else False):
                        fail('normalise', f'host-{op[1]}-format-wrong', {'value': str(hv), 'text': canon(text)})
                    else:
                        stats.probes['host_value_normalised'] += 1
                        nontrivial('host', op[1], 'ok')
        return None

    def host_clock(args, options):
        step = args[0] if args else 0
        clock.us += int(step) * 1000
        stats.faults['clock_step'] += 1
        if int(step) >= 3600000:
            stats.faults['clock_jump'] += 1
        return None

    def host_zone(args, options):
        # the embedding application changes the process zone between two library calls
        nonlocal zone, zi, trans
        zone = args[0]
        set_zone(zone)
        zi = zoneinfo.ZoneInfo(zone)
        trans = []
        stats.faults['tz_change_mid_run'] += 1
        return None

    globals_ = dict(host_values)
    globals_['hostObserve'] = host_observe
    globals_['hostClock'] = host_clock
    globals_['hostZone'] = host_zone
    options = SimOptions({'globals': globals_, 'maxStatements': 100000})
    saved = lib.datetime
    err = None
    try:
        lib.datetime = ClockModule(clock)
        execute_script(build_model(plan), options)
    except BareScriptRuntimeError as exc:
        err = ('rt', str(exc))
    except Exception as exc:  # pylint: disable=broad-except
        err = ('host', type(exc).__name__, str(exc)[:200])
    finally:
        lib.datetime = saved
    if harness:
        from ..core import HarnessError
        raise HarnessError('oracle failed: ' + harness[0])
    stats.faults['tz_config:' + plan['zone']] += 1
    stats.c['simulated_clock_ms'] += (clock.us - clock.first) // 1000
    if err is not None and not viols:
        fail('parse' if err[0] == 'host' else 'run', f'script-ended-with-{err[1] if err[0] == "host" else "runtime-error"}',
             {'error': err})
    sample = None
    if plan.get('seed', 0) % 211 == 1:
        sample = {'seed': plan.get('seed'), 'zone': zone, 'clock_start_utc_us': plan['start_us'],
                  'transitions_utc_s': trans, 'ops': plan['ops'][:12], 'observed': observed[:8]}
    return RunResult(viols, digest_of(observed), sample)


def classify_new(comps):
    c = list(comps) + [0] * (7 - len(comps))
    parts = []
    if not 1 <= c[1] <= 12:
        parts.append('month')
    if not 1 <= c[2] <= 28:
        parts.append('day')
    if any(not lo <= v < hi for v, lo, hi in ((c[3], 0, 24), (c[4], 0, 60), (c[5], 0, 60), (c[6], 0, 1000))):
        parts.append('time')
    return 'datetimeNew-rollover:' + ('+'.join(parts) or 'none')


def reducible(plan):
    return []


def simplify(plan, v):
    """Drop operations that nothing depends on (indices of datetime results must stay stable, so
    an operation is replaced by a no-op clock step instead of being deleted)."""
    out = []
    for ix, op in enumerate(plan['ops']):
        if op[0] in ('diff', 'iso', 'parse', 'zone'):
            c = copy.deepcopy(plan)
            c['ops'][ix] = ['clock', 0]
            if c['ops'] != plan['ops']:
                out.append(c)
        elif op[0] == 'clock' and op[1] != 0:
            c = copy.deepcopy(plan)
            c['ops'][ix] = ['clock', 0]
            out.append(c)
    # truncate the tail
    for cut in (len(plan['ops']) // 2, len(plan['ops']) - 1):
        if 0 < cut < len(plan['ops']):
            c = copy.deepcopy(plan)
            c['ops'] = c['ops'][:cut]
            out.append(c)
    return out


def simulated_time(total):
    return {'unit': 'milliseconds of simulated wall clock covered by the runs (sum of clock steps)',
            'value': int(total.c.get('simulated_clock_ms', 0))}
