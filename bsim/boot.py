"""Process bootstrap: fixed hash seed, /repo/src first on sys.path, sanity checks.

Every check process (parent and forked workers) goes through boot() exactly once.
"""
import os
import sys

REPO = os.environ.get('BSIM_REPO', '/repo')
REPO_SRC = os.path.join(REPO, 'src')
VERIF = os.path.dirname(os.path.dirname(os.path.abspath(__file__)))

_BOOTED = False


def reexec_with_fixed_hashseed():
    """Re-exec the interpreter with PYTHONHASHSEED=0 unless a seed is already pinned."""
    if os.environ.get('PYTHONHASHSEED') is None:
        env = dict(os.environ)
        env['PYTHONHASHSEED'] = '0'
        env['PYTHONDONTWRITEBYTECODE'] = '1'
        os.execve(sys.executable, [sys.executable] + sys.argv, env)


def boot():
    global _BOOTED
    if _BOOTED:
        return
    _BOOTED = True
    sys.dont_write_bytecode = True
    if REPO_SRC in sys.path:
        sys.path.remove(REPO_SRC)
    sys.path.insert(0, REPO_SRC)
    if VERIF not in sys.path:
        sys.path.insert(1, VERIF)
    import bare_script  # noqa
    path = os.path.realpath(bare_script.__file__)
    if not path.startswith(os.path.realpath(REPO_SRC) + os.sep):
        raise RuntimeError(f'bare_script imported from {path}, expected under {REPO_SRC}')
    sys.setrecursionlimit(20000)


def code_digest():
    """Digest of the code under test (working tree), recorded in replay files."""
    import hashlib
    h = hashlib.sha256()
    base = os.path.join(REPO_SRC, 'bare_script')
    for name in sorted(os.listdir(base)):
        if name.endswith('.py'):
            with open(os.path.join(base, name), 'rb') as fh:
                h.update(name.encode())
                h.update(fh.read())
    return h.hexdigest()[:16]
