"""RefHeap — reference model of the array / object / string library contracts (C15).

Written from the `$doc/$arg/$return` documentation of the library (see DESIGN.md Appendix A), not
from the implementation: arrays are shared mutable sequences, objects shared string-keyed maps,
strings immutable code-point sequences; a wrong-typed, missing, surplus or out-of-range argument
makes the call return its documented failure value and mutates nothing.

Values: None, bool, float/int, str, list, dict; 'opaque' values (datetime, function, regex) only
ever appear as wrong-typed arguments and are represented by Opaque(kind).
"""
import json


class Opaque:
    def __init__(self, kind):
        self.kind = kind


class Fail(Exception):
    def __init__(self, value=None):
        super().__init__('fail')
        self.value = value


class Unspecified(Exception):
    """The documentation does not fix the answer for these arguments: the workload must avoid them."""


UNCHECKED = object()      # return value the documentation does not fix (arrayDelete)


def is_num(v):
    return isinstance(v, (int, float)) and not isinstance(v, bool)


def is_ix(v):
    return is_num(v) and v == int(v) and v >= 0


def type_of(v):
    if v is None:
        return 'null'
    if isinstance(v, bool):
        return 'boolean'
    if is_num(v):
        return 'number'
    if isinstance(v, str):
        return 'string'
    if isinstance(v, list):
        return 'array'
    if isinstance(v, dict):
        return 'object'
    return v.kind


def compare(a, b, _depth=0):
    if _depth > 50:
        raise Unspecified('cyclic or very deep comparison')
    if a is None:
        return 0 if b is None else -1
    if b is None:
        return 1
    ta, tb = type_of(a), type_of(b)
    if ta != tb:
        return -1 if ta < tb else 1
    if ta in ('number', 'string', 'boolean'):
        return -1 if a < b else (0 if a == b else 1)
    if ta == 'array':
        for x, y in zip(a, b):
            c = compare(x, y, _depth + 1)
            if c:
                return c
        return -1 if len(a) < len(b) else (0 if len(a) == len(b) else 1)
    if ta == 'object':
        ia, ib = sorted(a.items()), sorted(b.items())
        for (ka, va), (kb, vb) in zip(ia, ib):
            if ka != kb:
                return -1 if ka < kb else 1
            c = compare(va, vb, _depth + 1)
            if c:
                return c
        return -1 if len(ia) < len(ib) else (0 if len(ia) == len(ib) else 1)
    raise Unspecified('comparison of ' + ta)


def num_text(v):
    # the shortest text that reads back as the same double, without a trailing '.0': 5 -> '5', 2.5 -> '2.5',
    # 2**53 -> '9007199254740992', 1e16 -> '1e+16' (integral values switch to exponent form at 1e16)
    text = repr(float(v))
    return text[:-2] if text.endswith('.0') else text


def to_json(v, _stack=()):
    if isinstance(v, (list, dict)):
        if any(v is x for x in _stack):
            raise Unspecified('cyclic container')
        _stack = _stack + (v,)
    if v is None:
        return 'null'
    if isinstance(v, bool):
        return 'true' if v else 'false'
    if is_num(v):
        return num_text(v)
    if isinstance(v, str):
        return json.dumps(v)
    if isinstance(v, list):
        return '[' + ','.join(to_json(x, _stack) for x in v) + ']'
    if isinstance(v, dict):
        return '{' + ','.join(json.dumps(k) + ':' + to_json(x, _stack) for k, x in sorted(v.items())) + '}'
    raise Unspecified('json of opaque')


def to_text(v):
    if v is None:
        return 'null'
    if isinstance(v, bool):
        return 'true' if v else 'false'
    if is_num(v):
        return num_text(v)
    if isinstance(v, str):
        return v
    if isinstance(v, (list, dict)):
        return to_json(v)
    raise Unspecified('text of opaque')


# ---------------------------------------------------------------------------------------------
# argument checking by the documented signatures
#   spec: list of (type, mode) with mode: 'req' | ('opt', default) | 'optnull' ; type None = any
# ---------------------------------------------------------------------------------------------
def check(args, spec, fail=None):
    if len(args) > len(spec):
        raise Fail(fail)
    out = []
    for ix, (typ, mode) in enumerate(spec):
        if ix >= len(args):
            if mode == 'req':
                if typ is None:
                    out.append(None)
                    continue
                raise Fail(fail)
            if mode == 'optnull':
                out.append(None)
            else:
                out.append(mode[1])
            continue
        v = args[ix]
        if typ is None:
            out.append(v)
            continue
        if v is None:
            if mode == 'optnull':
                out.append(None)
                continue
            if mode != 'req':
                raise Unspecified('explicit null for a defaulted argument')
            raise Fail(fail)
        t = type_of(v)
        if t == 'pred' or t.startswith('cmp:'):
            t = 'function'
        if t != typ:
            raise Fail(fail)
        out.append(v)
    return out


A, O, S, N = 'array', 'object', 'string', 'number'


def f_arrayCopy(args):
    a, = check(args, [(A, 'req')])
    return list(a)


def f_arrayDelete(args):
    a, i = check(args, [(A, 'req'), (N, 'req')])
    if not is_ix(i) or i >= len(a):
        raise Fail(None)
    del a[int(i)]
    return UNCHECKED


def f_arrayExtend(args):
    a, b = check(args, [(A, 'req'), (A, 'req')])
    a.extend(list(b))
    return a


def f_arrayGet(args):
    a, i = check(args, [(A, 'req'), (N, 'req')])
    if not is_ix(i) or i >= len(a):
        raise Fail(None)
    return a[int(i)]


KEPT = [None]     # the reference's copy of the global array gKept for the current run (set by the C15 engine)


def pred_value(x):
    """The simulated match function hostPred(value): a pure function of the element, answering with values of
    every truthiness class (the documentation says 'f(value) -> bool'; the language's truthiness applies)."""
    if is_num(x):
        return [None, 0.0, {}, 1.0, '', 'x', [], [0.0], True, False, {'k': 1.0}][int(abs(x)) % 11]
    if isinstance(x, str):
        return {} if len(x) % 2 else ''
    if x is None:
        return {}
    if isinstance(x, bool):
        return x
    if isinstance(x, list):
        return []
    return {}


def truthy(v):
    if v is None:
        return False
    if isinstance(v, bool):
        return v
    if is_num(v):
        return v != 0
    if isinstance(v, str):
        return v != ''
    if isinstance(v, list):
        return len(v) != 0
    return True


def _index_of(args, last):
    a, v, i = check(args, [(A, 'req'), (None, 'req'), (N, 'optnull' if last else ('opt', 0))], -1)
    if isinstance(v, Opaque) and v.kind in ('pred', 'pred:keep'):
        if i is None:
            i = len(a) - 1
            if i < 0:
                return -1
        if not is_ix(i) or i >= len(a):
            raise Fail(-1)
        rng = range(int(i), -1, -1) if last else range(int(i), len(a))
        for k in rng:
            if v.kind == 'pred:keep' and KEPT[0] is not None:
                # the script match function fnKeep(vals...) keeps its argument array: one NEW one-element array per
                # element visited, holding that element itself
                KEPT[0].append([a[k]])
            if truthy(pred_value(a[k])):
                return k
        return -1
    if isinstance(v, Opaque):
        raise Unspecified('match function / opaque search value')
    if i is None:
        i = len(a) - 1
        if i < 0:
            return -1
    if not is_ix(i) or i >= len(a):
        raise Fail(-1)
    rng = range(int(i), -1, -1) if last else range(int(i), len(a))
    for k in rng:
        if compare(a[k], v) == 0:
            return k
    return -1


def f_arrayIndexOf(args):
    return _index_of(args, False)


def f_arrayLastIndexOf(args):
    return _index_of(args, True)


def f_arrayJoin(args):
    a, sep = check(args, [(A, 'req'), (S, 'req')])
    return sep.join(to_text(x) for x in a)


def f_arrayLength(args):
    a, = check(args, [(A, 'req')], 0)
    return len(a)


def f_arrayNew(args):
    return list(args)


def f_arrayNewSize(args):
    n, v = check(args, [(N, ('opt', 0)), (None, ('opt', 0))])
    if not is_ix(n):
        raise Fail(None)
    if len(args) >= 2 and args[1] is None:
        raise Unspecified('explicit null fill value')
    return [v for _ in range(int(n))]


def f_arrayPop(args):
    a, = check(args, [(A, 'req')])
    if not a:
        raise Fail(None)
    return a.pop()


def f_arrayShift(args):
    a, = check(args, [(A, 'req')])
    if not a:
        raise Fail(None)
    return a.pop(0)


def f_arrayPush(args):
    if not args or not isinstance(args[0], list):
        raise Fail(None)
    args[0].extend(args[1:])
    return args[0]


def f_arraySet(args):
    a, i, v = check(args, [(A, 'req'), (N, 'req'), (None, 'req')])
    if not is_ix(i) or i >= len(a):
        raise Fail(None)
    a[int(i)] = v
    return v


def f_arraySlice(args):
    a, s, e = check(args, [(A, 'req'), (N, ('opt', 0)), (N, 'optnull')])
    if e is None:
        e = len(a)
    if not is_ix(s) or not is_ix(e) or s > len(a) or e > len(a):
        raise Fail(None)
    return a[int(s):int(e)]


def cmp_value(kind, x, y):
    """The simulated compare functions hostCmp (descending), hostCmpLen (by class, strings by length) and
    hostCmpNested (descending; the real one also runs an unrelated nested arraySort while comparing): pure, total,
    shallow, answering -1.0 / 0.0 / 1.0."""
    def rank(v):
        if v is None:
            return (0, 0)
        if isinstance(v, bool):
            return (1, int(v))
        if is_num(v):
            return (2, v)
        if isinstance(v, str):
            return (3, len(v) if kind == 'len' else v)
        if isinstance(v, list):
            return (4, len(v))
        if isinstance(v, dict):
            return (5, len(v))
        return (6, 0)
    a, b = rank(x), rank(y)
    if kind == 'len':
        a, b = (a[0], a[1] if a[0] == 3 else 0), (b[0], b[1] if b[0] == 3 else 0)
    if kind == 'diff' and a[0] == 2 and b[0] == 2:
        return (a[1] - b[1]) / 4.0          # the usual 'return a - b' compare function: fractional answers
    c = -1.0 if a < b else (0.0 if a == b else 1.0)
    return -c if kind in ('desc', 'nested') and c else c


def f_arraySort(args):
    a, fn = check(args, [(A, 'req'), ('function', 'optnull')])
    if isinstance(fn, Opaque) and fn.kind.startswith('cmp:'):
        import functools
        kind = fn.kind[4:]
        a.sort(key=functools.cmp_to_key(lambda x, y: cmp_value(kind, x, y)))
        return a
    if fn is not None:
        raise Unspecified('comparator')
    import functools
    a.sort(key=functools.cmp_to_key(compare))
    return a


def f_objectAssign(args):
    o, p = check(args, [(O, 'req'), (O, 'req')])
    for k, v in list(p.items()):
        o[k] = v
    return o


def f_objectCopy(args):
    o, = check(args, [(O, 'req')])
    return dict(o)


def f_objectDelete(args):
    o, k = check(args, [(O, 'req'), (S, 'req')])
    o.pop(k, None)
    return None


def f_objectGet(args):
    d = args[2] if len(args) >= 3 else None
    o, k, d = check(args, [(O, 'req'), (S, 'req'), (None, 'req')], d)
    return o.get(k, d)


def f_objectHas(args):
    o, k = check(args, [(O, 'req'), (S, 'req')], False)
    return k in o


def f_objectKeys(args):
    o, = check(args, [(O, 'req')])
    return list(o.keys())


def f_objectNew(args):
    out = {}
    for ix in range(0, len(args), 2):
        if not isinstance(args[ix], str):
            raise Fail(None)
        out[args[ix]] = args[ix + 1] if ix + 1 < len(args) else None
    return out


def f_objectSet(args):
    o, k, v = check(args, [(O, 'req'), (S, 'req'), (None, 'req')])
    o[k] = v
    return v


def f_stringCharCodeAt(args):
    s, i = check(args, [(S, 'req'), (N, 'req')])
    if not is_ix(i) or i >= len(s):
        raise Fail(None)
    return ord(s[int(i)])


def f_stringEndsWith(args):
    s, t = check(args, [(S, 'req'), (S, 'req')])
    return s.endswith(t)


def f_stringStartsWith(args):
    s, t = check(args, [(S, 'req'), (S, 'req')])
    return s.startswith(t)


def f_stringFromCharCode(args):
    for c in args:
        if not is_ix(c) or c > 0x10FFFF:
            raise Fail(None)
        if 0xD800 <= c <= 0xDFFF:
            raise Unspecified('surrogate code point')
    return ''.join(chr(int(c)) for c in args)


def f_stringIndexOf(args):
    s, t, i = check(args, [(S, 'req'), (S, 'req'), (N, ('opt', 0))], -1)
    if t == '':
        raise Unspecified('empty search string')
    if not is_ix(i) or i >= len(s):
        raise Fail(-1)
    return s.find(t, int(i))


def f_stringLastIndexOf(args):
    s, t, i = check(args, [(S, 'req'), (S, 'req'), (N, 'optnull')], -1)
    if t == '':
        raise Unspecified('empty search string')
    if i is None:
        i = len(s) - 1
        if i < 0:
            return -1
    if not is_ix(i) or i >= len(s):
        raise Fail(-1)
    for k in range(int(i), -1, -1):
        if s.startswith(t, k):
            return k
    return -1


def f_stringLength(args):
    s, = check(args, [(S, 'req')], 0)
    return len(s)


def f_stringLower(args):
    s, = check(args, [(S, 'req')])
    return s.lower()


def f_stringUpper(args):
    s, = check(args, [(S, 'req')])
    return s.upper()


def f_stringTrim(args):
    s, = check(args, [(S, 'req')])
    return s.strip()


def f_stringNew(args):
    if len(args) > 1:
        raise Fail(None)
    v = args[0] if args else None
    if isinstance(v, Opaque):
        raise Unspecified('text of opaque value')
    return to_text(v)


def f_stringRepeat(args):
    s, n = check(args, [(S, 'req'), (N, 'req')])
    if not is_ix(n):
        raise Fail(None)
    if n > 10 ** 6:
        raise Unspecified('repeat count of CPython magnitude')
    return s * int(n)


def f_stringReplace(args):
    s, t, u = check(args, [(S, 'req'), (S, 'req'), (S, 'req')])
    # (an empty search string: the str model — Python's replace and JavaScript's replaceAll alike — inserts the
    # replacement before every code point and at the end: 'ab' -> 'xaxbx', '' -> 'x')
    return s.replace(t, u)


def f_stringSlice(args):
    s, b, e = check(args, [(S, 'req'), (N, 'req'), (N, 'optnull')])
    if e is None:
        e = len(s)
    if not is_ix(b) or not is_ix(e) or b > len(s) or e > len(s):
        raise Fail(None)
    return s[int(b):int(e)]


def f_stringSplit(args):
    s, sep = check(args, [(S, 'req'), (S, 'req')])
    if sep == '':
        raise Unspecified('empty separator')
    return s.split(sep)


def f_passthrough_string(args):
    """regexEscape / urlEncode / urlEncodeComponent: the result is checked by its own rule; here only
    the argument contract (string required, else null)."""
    check(args, [(S, 'req')])
    return UNCHECKED


FUNCS = {name[2:]: fn for name, fn in globals().items() if name.startswith('f_') and name != 'f_passthrough_string'}
FUNCS['regexEscape'] = f_passthrough_string
FUNCS['urlEncode'] = f_passthrough_string
FUNCS['urlEncodeComponent'] = f_passthrough_string

# documented signatures used by the workload generator: (param kinds..., variadic?)
SIGNATURES = {
    'arrayCopy': [A], 'arrayDelete': [A, 'ix'], 'arrayExtend': [A, A], 'arrayGet': [A, 'ix'],
    'arrayIndexOf': [A, 'any', '?ix'], 'arrayJoin': [A, S], 'arrayLastIndexOf': [A, 'any', '?ix'], 'arrayLength': [A],
    'arrayNew': ['*any'], 'arrayNewSize': ['?small', '?any'], 'arrayPop': [A], 'arrayPush': [A, '*any'],
    'arraySet': [A, 'ix', 'any'], 'arrayShift': [A], 'arraySlice': [A, '?ix', '?ix'], 'arraySort': [A, '?cmp'],
    'objectAssign': [O, O], 'objectCopy': [O], 'objectDelete': [O, 'key'], 'objectGet': [O, 'key', '?any'],
    'objectHas': [O, 'key'], 'objectKeys': [O], 'objectNew': ['*kv'], 'objectSet': [O, 'key', 'any'],
    'stringCharCodeAt': [S, 'ix'], 'stringEndsWith': [S, 'sub'], 'stringFromCharCode': ['*code'],
    'stringIndexOf': [S, 'sub', '?ix'], 'stringLastIndexOf': [S, 'sub', '?ix'], 'stringLength': [S], 'stringLower': [S],
    'stringNew': ['any'], 'stringRepeat': [S, 'small'], 'stringReplace': [S, 'sub', S], 'stringSlice': [S, 'ix', '?ix'],
    'stringSplit': [S, 'sub'], 'stringStartsWith': [S, 'sub'], 'stringTrim': [S], 'stringUpper': [S],
    'regexEscape': [S], 'urlEncode': [S], 'urlEncodeComponent': [S],
}
