"""G-source: seeded generator of structured BareScript source programs (for the parser seams).

A program is a list of canonical logical lines: no indentation, single spaces between tokens, LF.
Every space that is not inside a string literal / bracket variable is a legal place for a
continuation break (the parser joins stripped parts with one space)."""

KEYWORDS = {'if', 'elif', 'else', 'endif', 'while', 'endwhile', 'for', 'endfor', 'function', 'endfunction', 'break',
            'continue', 'return', 'jump', 'jumpif', 'include', 'async', 'in', 'null', 'true', 'false'}
VARS = ['x', 'y', 'zz', 'n1', 'count', 'item_2', '_t', 'ab', 'value', 'ix', 'e', 'f']
FUNCS = ['fnA', 'fnB', 'doIt', 'arrayNew', 'arrayPush', 'systemLog', 'mathMax', 'objectGet', 'stringSlice', 'f2']
STRINGS = ["'a'", "'two words'", "''", "'it\\'s'", "'back\\\\slash'", '"dq"', '"say \\"hi\\""', "'#not comment'",
           "'colon: here'", "'a = b'", "'é𝄞'", "'(paren'", "'tab\\there'", '"semi; colon:"', "'raw\ttab'", '"x\t\ty"',
           "'  two  spaces  '"]
BINOPS = ['+', '-', '*', '/', '%', '**', '==', '!=', '<', '<=', '>', '>=', '&&', '||']


class SourceGen:
    def __init__(self, rng, max_depth=5, size=12, long_lines=0.0):
        self.rng = rng
        self.max_depth = max_depth
        self.size = size
        self.long_lines = long_lines
        self.n_label = 0
        self.budget = size * 3

    # -- expressions ---------------------------------------------------------------------------
    def number(self):
        r = self.rng
        return r.choice(['0', '1', '2', '10', '3.5', '0.25', '1e+3', '12.5e-2', '7.', '100', '42'])

    def expr(self, depth=0, allow_long=True):
        r = self.rng
        c = r.random()
        if allow_long and depth == 0 and r.random() < self.long_lines:
            n = r.randint(10, 70)
            return ' + '.join(self.expr(2, False) for _ in range(n))
        if depth >= 3 or c < 0.30:
            c2 = r.random()
            if c2 < 0.4:
                return self.number()
            if c2 < 0.65:
                return r.choice(VARS)
            if c2 < 0.85:
                return r.choice(STRINGS)
            if c2 < 0.92:
                return r.choice(['null', 'true', 'false'])
            return r.choice(['[a b]', '[x.y]', '[odd \\] name]', '[tab\tname]'])
        if c < 0.55:
            return f'{self.expr(depth + 1, False)} {r.choice(BINOPS)} {self.expr(depth + 1, False)}'
        if c < 0.65:
            return f'({self.expr(depth + 1, False)})'
        if c < 0.75:
            op = r.choice(['!', '-'])
            inner = self.expr(depth + 1, False)
            if op == '-' and (inner[:1] == '-' or (inner[:1] in '0123456789' and r.random() < 0.5)):
                inner = '(' + inner + ')'      # ('-2' is written both ways: a unary minus applied to the number 2)
            return op + inner
        args = ', '.join(self.expr(depth + 1, False) for _ in range(r.randint(0, 3)))
        return f'{r.choice(FUNCS)}({args})'

    def call(self):
        r = self.rng
        args = ', '.join(self.expr(1) for _ in range(r.randint(0, 3)))
        return f'{r.choice(FUNCS)}({args})'

    # -- statements ----------------------------------------------------------------------------
    def simple(self):
        r = self.rng
        c = r.random()
        if c < 0.40:
            return f'{r.choice(VARS)} = {self.expr()}'
        if c < 0.65:
            return self.call()
        if c < 0.72:
            return f'return {self.expr()}' if r.random() < 0.7 else 'return'
        if c < 0.78:
            self.n_label += 1
            return f'lab{r.randint(0, 3)}:'
        if c < 0.84:
            return f'jump lab{r.randint(0, 3)}'
        if c < 0.90:
            return f'jumpif ({self.expr(1)}) lab{r.randint(0, 3)}'
        if c < 0.95:
            return r.choice(["include 'lib.bare'", "include 'dir/other file.bare'", 'include <args.bare>',
                             "include 'it\\'s.bare'", "include 'tab\there.bare'", 'include <sys\tinc.bare>'])
        return f'{r.choice(VARS)} = {self.call()}'

    def block(self, depth, in_loop, in_func, n):
        r = self.rng
        out = []
        for _ in range(n):
            if self.budget <= 0:
                break
            self.budget -= 1
            c = r.random()
            if depth < self.max_depth and c < 0.14:
                out.append(f'if {self.expr(1)}:')
                out.extend(self.block(depth + 1, in_loop, in_func, r.randint(0, 3)))
                for _ in range(r.choice([0, 0, 1, 2])):
                    out.append(f'elif {self.expr(1)}:')
                    out.extend(self.block(depth + 1, in_loop, in_func, r.randint(0, 2)))
                if r.random() < 0.5:
                    out.append('else:')
                    out.extend(self.block(depth + 1, in_loop, in_func, r.randint(0, 2)))
                out.append('endif')
            elif depth < self.max_depth and c < 0.22:
                out.append(f'while {self.expr(1)}:')
                out.extend(self.block(depth + 1, True, in_func, r.randint(0, 3)))
                out.append('endwhile')
            elif depth < self.max_depth and c < 0.30:
                idx = f', {r.choice(["i", "ix2", "k"])}' if r.random() < 0.4 else ''
                out.append(f'for {r.choice(["v", "item", "e1"])}{idx} in {self.expr(1)}:')
                out.extend(self.block(depth + 1, True, in_func, r.randint(0, 3)))
                out.append('endfor')
            elif not in_func and c < 0.38 and (depth == 0 or (depth <= 3 and r.random() < 0.25)):
                # (a function may also be defined inside open if / while / for blocks of the top level)
                args = ', '.join(r.sample(['a', 'b', 'c1', 'rest'], r.randint(0, 3)))
                if args and r.random() < 0.25:
                    args += '...'
                pre = 'async ' if r.random() < 0.15 else ''
                out.append(f'{pre}function {r.choice(["fnA", "fnB", "doIt", "helper"])}({args}):')
                out.extend(self.block(depth + 1, False, True, r.randint(0, 4)))
                out.append('endfunction')
            elif in_loop and c < 0.46:
                out.append(r.choice(['break', 'continue']))
            else:
                out.append(self.simple())
        return out

    def program(self):
        r = self.rng
        lines = self.block(0, False, False, r.randint(2, self.size))
        if not lines:
            lines = ['x = 1']
        return lines

    def deep_program(self, depth):
        """Depth probe: `depth` nested blocks."""
        r = self.rng
        opens, closes = [], []
        in_loop = False
        for _ in range(depth):
            k = r.choice(['if', 'while', 'for'])
            if k == 'if':
                opens.append(f'if {self.expr(2)}:')
                closes.append('endif')
            elif k == 'while':
                opens.append(f'while {self.expr(2)}:')
                closes.append('endwhile')
                in_loop = True
            else:
                opens.append(f'for v in {self.expr(2)}:')
                closes.append('endfor')
                in_loop = True
        body = [self.simple() for _ in range(r.randint(1, 3))]
        if in_loop and r.random() < 0.5:
            body.append('continue')
        return opens + body + list(reversed(closes))


def break_positions(line):
    """Indexes of spaces in `line` that are outside string literals and bracket variables: the
    places where the canonical text has exactly one space and a continuation break is legal."""
    out = []
    quote = None
    bracket = False
    i = 0
    n = len(line)
    while i < n:
        ch = line[i]
        if quote:
            if ch == '\\' and i + 1 < n:
                i += 2
                continue
            if ch == quote:
                quote = None
        elif bracket:
            if ch == '\\' and i + 1 < n:
                i += 2
                continue
            if ch == ']':
                bracket = False
        elif ch in ('"', "'"):
            quote = ch
        elif ch == '[':
            bracket = True
        elif ch == ' ':
            out.append(i)
        i += 1
    return out


def outside_literal_positions(line):
    """Indexes of characters outside string literals / bracket variables (and not spaces)."""
    out = []
    quote = None
    bracket = False
    i = 0
    n = len(line)
    while i < n:
        ch = line[i]
        if quote:
            if ch == '\\' and i + 1 < n:
                i += 2
                continue
            if ch == quote:
                quote = None
        elif bracket:
            if ch == '\\' and i + 1 < n:
                i += 2
                continue
            if ch == ']':
                bracket = False
        elif ch in ('"', "'"):
            quote = ch
        elif ch == '[':
            bracket = True
        elif ch != ' ':
            out.append(i)
        i += 1
    return out


def zero_gap_positions(line):
    """Indexes i (outside literals) where the grammar allows white space although the canonical text has none, so
    that a continuation break may be put between line[:i] and line[i:] (the join then writes one space there):
    before a comma, after an opening and before a closing parenthesis, before the colon that ends an if / elif /
    while / for header, after a unary '-' or '!'."""
    outside = set(outside_literal_positions(line))
    out = []
    n = len(line)
    head = line.split(' ', 1)[0]
    for i in range(1, n):
        if i not in outside or (i - 1) not in outside:
            continue
        ch, prev = line[i], line[i - 1]
        if ch == ',' and prev != ' ':
            out.append(i)
        elif prev == '(' and ch not in ') ':
            out.append(i)
        elif ch == ')' and prev not in '( ':
            out.append(i)
        elif ch == ':' and i == n - 1 and head in ('if', 'elif', 'while', 'for'):
            out.append(i)
        elif prev in '-!' and ch != ' ' and ch != '=' and (i == 1 or line[i - 2] in ' (!-'):
            out.append(i)
    return out
