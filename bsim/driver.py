"""Batch driver: seeded search over many simulated runs on all cores, known-finding handling,
minimisation, replay files, evidence.

Exit codes: 0 held on everything explored (possibly KNOWN-FINDING lines), 1 VIOLATION printed,
3 harness error (never 0, never a VIOLATION).
"""
import concurrent.futures
import copy
import faulthandler
import json
import multiprocessing
import os
import subprocess
import sys
import time
import traceback

from . import boot
from .core import Stats, Violation, digest_of, GUARD, SimWatchdog, HarnessError

VERIF = boot.VERIF
STATEMENT_KEYS = {'expr', 'jump', 'label', 'return', 'function', 'include'}


# --------------------------------------------------------------------------------------------
# worker
# --------------------------------------------------------------------------------------------
_MODULE = None
_PROC_HISTORY = []      # seeds this worker process has run so far, in order (runs that are not forked per run)


def _worker_init(mod_name):
    global _MODULE
    boot.boot()
    faulthandler.enable()
    import importlib
    _MODULE = importlib.import_module(mod_name)
    if hasattr(_MODULE, 'worker_init'):
        _MODULE.worker_init()
    from . import interloper
    interloper.calibrate()


def _run_chunk(args):
    mod_name, tier, seeds, want_digest, extra, deadline = args
    mod = _MODULE
    stats = Stats()
    violations = []
    digests = {}
    t0 = time.time()
    faulthandler.dump_traceback_later(600, exit=True)
    isolate = getattr(mod, 'ISOLATE', False)
    history_before = list(_PROC_HISTORY)
    try:
        for seed in seeds:
            if deadline is not None and time.time() > deadline:
                stats.c['seeds_skipped_after_wall_cap'] += 1
                continue
            res = None
            if not isolate:
                _PROC_HISTORY.append(seed)
            for _attempt in range(3):
                try:
                    plan = mod.gen(seed, tier, extra)
                    GUARD.arm(getattr(mod, 'HANG_LIMIT_S', None))
                    try:
                        if getattr(mod, 'ISOLATE', False):
                            res = run_isolated(mod, plan, stats)
                        else:
                            res = mod.run(plan, stats)
                    except SimWatchdog:
                        res = RunResult([Violation(mod.PROP, 'live', 'wall-clock-hang',
                                                   {'seed': seed, 'note': f'run spun for {GUARD.LIMIT_S}s of CPU time '
                                                    'without reaching a seam (hang guard); not minimised'})], 'hang')
                    finally:
                        GUARD.disarm()
                    break
                except SimWatchdog:
                    # a late delivery of the guard's asynchronous exception (it fired just before disarm): the
                    # run it was meant for is over; repeat this seed
                    res = None
                    continue
            if res is None:
                raise HarnessError(f'seed {seed}: stray watchdog exceptions')
            stats.c['runs'] += 1
            if want_digest:
                digests[seed] = res.digest
            for v in res.violations:
                if len(violations) < 40:
                    violations.append((seed, v.to_wire()))
                stats.c['violations_raw'] += 1
            if len(stats.samples) < 2 and res.sample is not None:
                stats.samples.append(res.sample)
    finally:
        faulthandler.cancel_dump_traceback_later()
    # what this process ran before this chunk: if a violation does not reproduce on its own, the parent replays it
    # after this history (process-global state left behind by earlier runs)
    return stats.to_wire(), violations, digests, time.time() - t0, (history_before if violations and not isolate else None)


def run_isolated(mod, plan, stats):
    """Run one plan in a forked child so that every run starts from the pristine post-import state
    of the code under test: hidden module-level state left behind by earlier runs can then neither
    make a run irreproducible nor hide behind the order in which a worker happened to run seeds.
    State leaking between the clients/phases INSIDE one plan stays visible (and replayable)."""
    import pickle
    rfd, wfd = os.pipe()
    pid = os.fork()
    if pid == 0:
        code = 0
        try:
            os.close(rfd)
            GUARD.thread = None
            GUARD.lock = __import__('threading').Lock()
            GUARD.arm(getattr(mod, 'HANG_LIMIT_S', None))
            local = Stats()
            try:
                res = mod.run(plan, local)
                payload = ('ok', [v.to_wire() for v in res.violations], res.digest, res.sample, local.to_wire())
            except SimWatchdog:
                payload = ('hang', None, None, None, local.to_wire())
            except BaseException as exc:  # pylint: disable=broad-except
                payload = ('error', f'{type(exc).__name__}: {exc}', None, None, local.to_wire())
            with os.fdopen(wfd, 'wb') as fh:
                pickle.dump(payload, fh)
        except BaseException:  # pylint: disable=broad-except
            code = 1
        finally:
            os._exit(code)
    os.close(wfd)
    with os.fdopen(rfd, 'rb') as fh:
        data = fh.read()
    os.waitpid(pid, 0)
    if not data:
        raise HarnessError('isolated child died without a result')
    kind, a, dig, sample, swire = pickle.loads(data)
    stats.merge_counts(Stats.from_wire(swire))
    if kind == 'hang':
        raise SimWatchdog('hang in isolated child')
    if kind == 'error':
        raise HarnessError('isolated child: ' + a)
    return RunResult([Violation(w['property'], w['rule'], w['signature'], w['detail']) for w in a], dig, sample)


class RunResult:
    __slots__ = ('violations', 'digest', 'sample')

    def __init__(self, violations=None, digest=None, sample=None):
        self.violations = violations or []
        self.digest = digest
        self.sample = sample


# --------------------------------------------------------------------------------------------
# known findings
# --------------------------------------------------------------------------------------------
def load_known():
    path = os.path.join(VERIF, 'known_findings.json')
    if not os.path.exists(path):
        return [], []
    with open(path) as fh:
        data = json.load(fh)
    return data.get('known', []), data.get('fixed', [])


def match_known(known, wire):
    for k in known:
        if k['property'] == wire['property'] and k['rule'] == wire['rule'] and k['signature'] == wire['signature']:
            return k
    return None


# --------------------------------------------------------------------------------------------
# minimisation (delta debugging over the JSON plan)
# --------------------------------------------------------------------------------------------
def _statement_lists(obj, acc):
    if isinstance(obj, list):
        if obj and all(isinstance(x, dict) and len(x) == 1 and next(iter(x)) in STATEMENT_KEYS for x in obj):
            acc.append(obj)
        for x in obj:
            _statement_lists(x, acc)
    elif isinstance(obj, dict):
        for v in obj.values():
            _statement_lists(v, acc)


def reducible_lists(plan, mod):
    acc = []
    if hasattr(mod, 'reducible'):
        acc.extend(mod.reducible(plan))
    _statement_lists(plan, acc)
    for key in ('faults', 'fetch_faults', 'clients', 'ops', 'steps', 'layout', 'chunks'):
        if isinstance(plan.get(key), list):
            acc.append(plan[key])
    for spec in (plan.get('answers') or {}).values():
        if isinstance(spec, dict) and isinstance(spec.get('seq'), list):
            acc.append(spec['seq'])
    # unique by identity, non-empty
    seen = set()
    out = []
    for lst in acc:
        if id(lst) not in seen and lst:
            seen.add(id(lst))
            out.append(lst)
    return out


def minimise(mod, plan, target, max_runs=400, max_seconds=40):
    """Shrink `plan` while a violation with the same (rule, signature) persists."""
    t0 = time.time()
    runs = [0]

    def still_fails(candidate):
        runs[0] += 1
        GUARD.arm(getattr(mod, 'HANG_LIMIT_S', None))
        try:
            if hasattr(mod, 'fixup'):
                mod.fixup(candidate)
            # always in a forked child of this (pristine: the parent never runs a plan itself) process, so that what
            # survives minimisation is what a fresh interpreter reproduces, whatever state runs leave behind
            res = run_isolated(mod, candidate, Stats())
        except SimWatchdog:
            res = RunResult([Violation(mod.PROP, 'live', 'wall-clock-hang', {'note': 'hang guard'})], 'hang')
        except Exception:  # pylint: disable=broad-except
            return None
        finally:
            GUARD.disarm()
        for v in res.violations:
            if v.rule == target['rule'] and v.signature == target['signature']:
                return v
        return None

    best = copy.deepcopy(plan)
    best_v = still_fails(copy.deepcopy(best))
    if best_v is None:
        return plan, None, runs[0]

    def out_of_budget():
        return runs[0] >= max_runs or time.time() - t0 >= max_seconds

    def apply_simplify():
        nonlocal best, best_v
        changed = False
        if hasattr(mod, 'simplify'):
            for _ in range(4):
                again = False
                for cand in mod.simplify(best, best_v):
                    if out_of_budget():
                        break
                    v = still_fails(cand)
                    if v is not None:
                        best, best_v = cand, v
                        changed = again = True
                        break
                if not again:
                    break
        return changed

    apply_simplify()
    progress = True
    while progress and not out_of_budget():
        progress = False
        li = 0
        while li < len(reducible_lists(best, mod)) and not out_of_budget():
            chunk = max(1, len(reducible_lists(best, mod)[li]) // 2)
            while not out_of_budget():
                start = 0
                while not out_of_budget():
                    cur = reducible_lists(best, mod)
                    if li >= len(cur) or start >= len(cur[li]):
                        break
                    cand = copy.deepcopy(best)
                    del reducible_lists(cand, mod)[li][start:start + chunk]
                    v = still_fails(cand)
                    if v is not None:
                        best, best_v = cand, v
                        progress = True
                    else:
                        start += chunk
                if chunk == 1:
                    break
                chunk = max(1, chunk // 2)
            li += 1
        # dict entries (files)
        files = best.get('files')
        if isinstance(files, dict):
            for key in list(files):
                cand = copy.deepcopy(best)
                del cand['files'][key]
                v = still_fails(cand)
                if v is not None:
                    best, best_v = cand, v
                    progress = True
        if apply_simplify():
            progress = True
    if hasattr(mod, 'fixup'):
        mod.fixup(best)
    return best, best_v, runs[0]


# --------------------------------------------------------------------------------------------
# replay
# --------------------------------------------------------------------------------------------
def write_replay(mod, seed, plan, vwire, original_seed=None):
    name = f'{mod.PROP}-{vwire["rule"]}-{seed}.json'
    path = os.path.join(out_dir('replays'), name)
    with open(path, 'w') as fh:
        json.dump({'property': mod.PROP, 'seed': seed, 'rule': vwire['rule'], 'signature': vwire['signature'],
                   'detail': vwire['detail'], 'plan': plan, 'code_digest': boot.code_digest(),
                   'how': f'./check {mod.PROP} --replay {path}'}, fh, indent=1, default=str)
    return path


def do_replay(mod, path):
    with open(path) as fh:
        data = json.load(fh)
    plan = data['plan']
    if hasattr(mod, 'fixup'):
        mod.fixup(plan)
    # a violation that needs state left behind by earlier runs in the same process: run that history first
    hist = data.get('history_plans')
    if hist is None and data.get('history_seeds'):
        hist = [mod.gen(s, data.get('tier', 'quick'), data.get('extra')) for s in data['history_seeds']]
    for hplan in hist or []:
        GUARD.arm(getattr(mod, 'HANG_LIMIT_S', None))
        try:
            mod.run(hplan, Stats())
        except (SimWatchdog, Exception):  # pylint: disable=broad-except
            pass
        finally:
            GUARD.disarm()
    if hist:
        print(f'REPLAY ran a history of {len(hist)} earlier runs in this process first')
    GUARD.arm(getattr(mod, 'HANG_LIMIT_S', None))
    try:
        res = mod.run(plan, Stats())
    except SimWatchdog:
        res = RunResult([Violation(mod.PROP, 'live', 'wall-clock-hang', {'note': 'hang guard'})], 'hang')
    finally:
        GUARD.disarm()
    for v in res.violations:
        if v.rule == data['rule'] and v.signature == data['signature']:
            print(f'REPLAY reproduces {mod.PROP}.{v.rule} [{v.signature}]: {json.dumps(v.detail, default=str)[:1500]}')
            print(f'VIOLATION property={mod.PROP} replay={path}')
            return 1
    if res.violations:
        v = res.violations[0]
        print(f'REPLAY gives a different violation: {mod.PROP}.{v.rule} [{v.signature}]')
        print(f'VIOLATION property={mod.PROP} replay={path}')
        return 1
    print(f'REPLAY does not reproduce on this tree (code digest now {boot.code_digest()}, then {data.get("code_digest")})')
    return 0


def reproduce_with_history(mod, tier, extra, vseed, wire, history, budget_s=240):
    """The violation at `vseed` did not reproduce on its own. `history`: the seeds the worker process had run, in
    order, up to and including vseed. Find a short sub-sequence of earlier runs after which the violation does
    reproduce in a FRESH interpreter (process-global state left behind by earlier runs), and write it as replay file.
    Returns (path, n_history, tests) or (None, 0, tests)."""
    t0 = time.time()
    before = [s for s in history[:-1]]
    plan = mod.gen(vseed, tier, extra)
    path = os.path.join(out_dir('replays'), f'{mod.PROP}-{wire["rule"]}-{vseed}.json')
    tests = [0]

    def write(sub, final=False):
        data = {'property': mod.PROP, 'seed': vseed, 'rule': wire['rule'], 'signature': wire['signature'],
                'detail': wire['detail'], 'plan': plan, 'tier': tier, 'extra': extra, 'history_seeds': sub,
                'note': 'this violation needs state left behind by earlier runs in the same process: the replay runs '
                        'the plans of history_seeds (in order) and then the plan',
                'code_digest': boot.code_digest(), 'how': f'./check {mod.PROP} --replay {path}'}
        if final and len(sub) <= 20:
            data['history_plans'] = [mod.gen(s, tier, extra) for s in sub]
        with open(path, 'w') as fh:
            json.dump(data, fh, indent=1, default=str)

    def test(sub):
        tests[0] += 1
        write(sub)
        try:
            ok, _out = replay_fresh(mod, path)
        except subprocess.TimeoutExpired:
            ok = False
        return ok

    found = None
    k = 1
    while time.time() - t0 < budget_s:
        sub = before[-k:] if k < len(before) else list(before)
        if sub and test(sub):
            found = sub
            break
        if k >= len(before):
            break
        k *= 4
    if found is None:
        try:
            os.unlink(path)
        except OSError:
            pass
        return None, 0, tests[0]
    # delta debugging over the history
    chunk = max(1, len(found) // 2)
    while time.time() - t0 < budget_s and len(found) > 1:
        start = 0
        shrunk = False
        while start < len(found) and time.time() - t0 < budget_s and len(found) > 1:
            cand = found[:start] + found[start + chunk:]
            if cand and test(cand):
                found = cand
                shrunk = True
            else:
                start += chunk
        if chunk == 1 and not shrunk:
            break
        chunk = max(1, chunk // 2)
    write(found, final=True)
    return path, len(found), tests[0]


def replay_fresh(mod, path):
    """Re-run a replay file in a fresh interpreter; True if it fails the same way."""
    cmd = [sys.executable, os.path.join(VERIF, 'check'), mod.PROP, '--replay', path]
    env = dict(os.environ)
    env.pop('VERIF_SEED', None)
    proc = subprocess.run(cmd, capture_output=True, text=True, timeout=300, env=env, check=False)
    return proc.returncode == 1 and 'REPLAY reproduces' in proc.stdout, proc.stdout[-2000:]


# --------------------------------------------------------------------------------------------
# main batch
# --------------------------------------------------------------------------------------------
def run_batch(mod, tier, base_seed, workers=None):
    t0 = time.time()
    conf = mod.budget(tier)
    n_seeds = conf['seeds']
    chunk = conf.get('chunk', 50)
    wall_cap = float(os.environ.get('VERIF_WALL_CAP', conf.get('wall_cap', 3600)))
    workers = workers or min(16, os.cpu_count() or 1)
    workers = int(os.environ.get('VERIF_WORKERS', workers))
    extra = conf.get('extra')
    seeds = [base_seed * 1000003 + i for i in range(n_seeds)]
    canary = seeds[:conf.get('canary', 32)]
    chunks = [seeds[i:i + chunk] for i in range(0, len(seeds), chunk)]
    total = Stats()
    all_viol = []
    digests_a = {}
    digests_b = {}
    harness_errors = []
    histories = {}
    ctx = multiprocessing.get_context('fork')
    mod_name = mod.__name__
    truncated = False
    with concurrent.futures.ProcessPoolExecutor(max_workers=workers, mp_context=ctx, initializer=_worker_init,
                                                initargs=(mod_name,)) as pool:
        futs = {}
        # determinism canary: the first seeds run twice, in different tasks (usually different processes)
        deadline = t0 + wall_cap
        futs[pool.submit(_run_chunk, (mod_name, tier, canary, True, extra, None))] = 'canary-a'
        futs[pool.submit(_run_chunk, (mod_name, tier, list(reversed(canary)), True, extra, None))] = 'canary-b'
        for ix, ch in enumerate(chunks):
            futs[pool.submit(_run_chunk, (mod_name, tier, ch, False, extra, deadline))] = ix
        pending = set(futs)
        while pending:
            done, pending = concurrent.futures.wait(pending, timeout=5, return_when=concurrent.futures.FIRST_COMPLETED)
            for fut in done:
                tag = futs[fut]
                try:
                    swire, viols, digs, _secs, hist_before = fut.result()
                except BaseException as exc:  # pylint: disable=broad-except
                    if isinstance(exc, KeyboardInterrupt):
                        raise
                    harness_errors.append(f'{tag}: {type(exc).__name__}: {exc}')
                    continue
                if tag == 'canary-a':
                    digests_a = digs
                    continue
                if tag == 'canary-b':
                    digests_b = digs
                    continue
                total.merge(Stats.from_wire(swire))
                all_viol.extend(viols)
                if hist_before is not None:
                    for vseed, _w in viols:
                        histories.setdefault(vseed, hist_before + chunks[tag][:chunks[tag].index(vseed) + 1])
            # workers stop taking new seeds at the deadline themselves (graceful truncation); only a chunk that is
            # still running long after it is a harness problem
            if time.time() - t0 > wall_cap + 900 and pending:
                harness_errors.append('chunks still running 15 minutes after the wall-clock cap')
                for proc in list(pool._processes.values()):  # pylint: disable=protected-access
                    proc.kill()
                break
    truncated = total.c.get('seeds_skipped_after_wall_cap', 0) > 0
    canary_ok = bool(digests_a) and digests_a == digests_b
    if not canary_ok and not harness_errors:
        diff = [s for s in digests_a if digests_a.get(s) != digests_b.get(s)]
        harness_errors.append(f'determinism canary failed for seeds {diff[:5]}')
    return total, all_viol, harness_errors, {'canary_ok': canary_ok, 'canary_seeds': len(canary),
                                             'truncated': truncated, 'workers': workers, 'histories': histories,
                                             'wall_s': time.time() - t0,
                                             'seeds': n_seeds - total.c.get('seeds_skipped_after_wall_cap', 0)}


def main_check(mod, argv):
    boot.boot()
    tier = os.environ.get('VERIF_TIER', 'quick')
    replay = None
    seed = int(os.environ.get('VERIF_SEED', '1') or '1')
    it = iter(argv)
    for a in it:
        if a == '--tier':
            tier = next(it)
        elif a == '--replay':
            replay = next(it)
        elif a == '--seed':
            seed = int(next(it))
        else:
            print(f'unknown argument {a}', file=sys.stderr)
            return 3
    if hasattr(mod, 'worker_init'):
        mod.worker_init()
    from . import interloper
    interloper.calibrate()
    if replay:
        return do_replay(mod, replay)
    t0 = time.time()
    print(f'[{mod.PROP}] tier={tier} VERIF_SEED={seed} code={boot.code_digest()} python={sys.version.split()[0]} '
          f'PYTHONHASHSEED={os.environ.get("PYTHONHASHSEED")}')
    try:
        total, all_viol, harness_errors, meta = run_batch(mod, tier, seed)
    except Exception:  # pylint: disable=broad-except
        traceback.print_exc()
        print(f'HARNESS-ERROR property={mod.PROP} driver crashed')
        return 3
    known, _fixed = load_known()
    # group violations
    groups = {}
    for vseed, wire in sorted(all_viol, key=lambda x: x[0]):
        key = (wire['property'], wire['rule'], wire['signature'])
        groups.setdefault(key, []).append((vseed, wire))
    exit_code = 0
    reported = []
    known_hits = {}
    for key, items in sorted(groups.items()):
        k = match_known(known, items[0][1])
        if k is not None:
            known_hits[key] = len(items)
            continue
        reported.append((key, items))
    # every listed finding of this property is re-checked on its own recorded input, so that the KNOWN-FINDING line
    # does not depend on whether this batch's seeds happened to hit it
    for k in known:
        if k['property'] != mod.PROP:
            continue
        key = (k['property'], k['rule'], k['signature'])
        reproduced = None
        if k.get('replay'):
            try:
                with open(os.path.join(VERIF, k['replay'])) as fh:
                    kplan = json.load(fh)['plan']
                if hasattr(mod, 'fixup'):
                    mod.fixup(kplan)
                GUARD.arm()
                try:
                    kres = run_isolated(mod, kplan, Stats())
                finally:
                    GUARD.disarm()
                reproduced = any(v.rule == k['rule'] and v.signature == k['signature'] for v in kres.violations)
            except Exception as exc:  # pylint: disable=broad-except
                harness_errors.append(f'known finding {k["replay"]}: {type(exc).__name__}: {exc}')
        count = known_hits.get(key, 0)
        if reproduced or count:
            print(f'KNOWN-FINDING: property={key[0]} rule={key[1]} {key[2]} '
                  f'(recorded input {"reproduces" if reproduced else "not re-run"}; {count} further occurrences in this batch)')
        else:
            print(f'note: known finding {key[0]}.{key[1]} [{key[2]}] does not reproduce on this tree any more '
                  f'(recorded input {k.get("replay")}); no occurrence in this batch')
    n_min = 0
    for key, items in reported:
        vseed, wire = items[0]
        print(f'violation {key[0]}.{key[1]} [{key[2]}] first at seed {vseed} ({len(items)} occurrences)')
        if n_min >= 3:
            continue
        n_min += 1
        plan = mod.gen(vseed, tier, mod.budget(tier).get('extra'))
        if wire['signature'] == 'wall-clock-hang':
            small, v, nruns = plan, Violation(wire['property'], wire['rule'], wire['signature'], wire['detail']), 0
        else:
            small, v, nruns = minimise(mod, plan, wire)
        if v is None:
            hist = meta.get('histories', {}).get(vseed)
            hpath = None
            if hist and len(hist) > 1:
                hpath, nh, ntests = reproduce_with_history(mod, tier, mod.budget(tier).get('extra'), vseed, wire, hist)
            if hpath is None:
                harness_errors.append(f'violation at seed {vseed} did not reproduce in the parent process')
                continue
            print(f'  does not reproduce on its own; reproduces in a fresh interpreter after a history of {nh} earlier '
                  f'run(s) in the same process (of {len(hist) - 1}; {ntests} replays) -> {hpath}')
            print(f'  detail: {json.dumps(wire["detail"], default=str)[:1200]}')
            print(f'VIOLATION property={mod.PROP} replay={hpath}')
            exit_code = 1
            continue
        path = write_replay(mod, vseed, small, v.to_wire())
        ok, out = replay_fresh(mod, path)
        print(f'  minimised in {nruns} runs -> {path}')
        print(f'  detail: {json.dumps(v.detail, default=str)[:1200]}')
        if ok:
            print(f'VIOLATION property={mod.PROP} replay={path}')
            exit_code = 1
        else:
            harness_errors.append(f'replay of {path} in a fresh interpreter did not reproduce: {out[-300:]}')
    wall = time.time() - t0
    write_evidence(mod, tier, seed, total, meta, wall, len(reported), known_hits)
    print(f'[{mod.PROP}] runs={total.c["runs"]} wall={wall:.1f}s faults_fired={sum(total.faults.values())} '
          f'distinct_nontrivial={len(total.distinct.get("nontrivial", ()))} canary_ok={meta["canary_ok"]} '
          f'unattributable={total.c.get("unattributable", 0)} ref_unsupported={total.c.get("ref_unsupported", 0)}')
    rejected = total.c.get('generated_program_rejected_by_the_parser', 0)
    if rejected:
        print(f'WARNING generated-programs-rejected: {rejected} of {total.c["runs"]} generated (valid by construction) '
              'programs were rejected by the parser and skipped')
    unat = total.c.get('unattributable', 0)
    if total.c['runs'] and unat / total.c['runs'] > 0.01:
        print(f'WARNING reference-divergence: {unat} of {total.c["runs"]} runs unattributable')
    if harness_errors:
        for h in harness_errors:
            print(f'HARNESS-ERROR property={mod.PROP} {h}')
        return 1 if exit_code == 1 else 3
    return exit_code


def out_dir(kind):
    """evidence/ and replays/ for runs against /repo; *-scratch/ (git-ignored) when BSIM_REPO points the
    checks at a scratch copy (mutants, seeded changes), so committed evidence always describes /repo."""
    name = kind + ('-scratch' if os.environ.get('BSIM_REPO') else '')
    path = os.path.join(VERIF, name)
    os.makedirs(path, exist_ok=True)
    return path


def write_evidence(mod, tier, seed, total, meta, wall, n_violation_groups, known_hits):
    runs = total.c['runs']
    per_hour = int(runs / wall * 3600) if wall > 0 else 0
    cov = {
        'evaluations': max(1, int(total.c.get('evaluations', runs))),
        'distinct_nontrivial': len(total.distinct.get('nontrivial', ())),
        'rule': mod.RULE,
        'samples': total.samples[:5] or ['(no sample recorded)'],
        'exhaustive': False,
        'simulated_runs': runs,
        'seeds': meta['seeds'],
        'runs_per_hour': per_hour,
        'seeds_per_hour': int(meta['seeds'] / wall * 3600) if wall > 0 else 0,
        'simulated_time': mod.simulated_time(total) if hasattr(mod, 'simulated_time') else None,
        'faults_fired_by_kind': dict(sorted(total.faults.items())),
        'probes_reached': dict(sorted(total.probes.items())),
        'distinct_measures': {k: len(v) for k, v in sorted(total.distinct.items())},
        'counters': dict(sorted(total.c.items())),
        'notes': dict(sorted(total.notes.items())),
        'unattributable_runs': total.c.get('unattributable', 0),
        'determinism_canary': {'seeds_run_twice': meta['canary_seeds'], 'digests_equal': meta['canary_ok']},
        'workers': meta['workers'],
        'truncated_by_wall_cap': meta['truncated'],
        'components': mod.COMPONENTS,
        'known_findings_hit': {f'{k[1]}[{k[2]}]': n for k, n in known_hits.items()},
        'code_digest': boot.code_digest(),
    }
    ev = {
        'property_id': mod.PROP,
        'tier': tier if tier in ('quick', 'thorough') else 'quick',
        'seed': seed,
        'level': mod.LEVEL,
        'coverage': cov,
        'assumptions': mod.ASSUMPTIONS,
        'wall_s': round(wall, 2),
        'violations': n_violation_groups,
    }
    path = os.path.join(out_dir('evidence'), f'{mod.PROP}.json')
    with open(path, 'w') as fh:
        json.dump(ev, fh, indent=1, default=str)
        fh.write('\n')
