"""Program IR = the BareScript model format itself (plain dicts), plus builders and a renderer
from model to source text (every jump-level statement has a source spelling)."""


# -- expression builders -------------------------------------------------------------------------
def num(n):
    return {'number': float(n)}


def s(text):
    return {'string': text}


def var(name):
    return {'variable': name}


def call(name, *args):
    return {'function': {'name': name, 'args': list(args)}}


def binop(op, left, right):
    return {'binary': {'op': op, 'left': left, 'right': right}}


def unop(op, expr):
    return {'unary': {'op': op, 'expr': expr}}


def group(expr):
    return {'group': expr}


# -- statement builders --------------------------------------------------------------------------
def st_expr(expr, name=None):
    d = {'expr': {'expr': expr}}
    if name is not None:
        d = {'expr': {'name': name, 'expr': expr}}
    return d


def st_jump(label, expr=None):
    d = {'jump': {'label': label}}
    if expr is not None:
        d['jump']['expr'] = expr
    return d


def st_label(name):
    return {'label': name}


def st_return(expr=None):
    d = {'return': {}}
    if expr is not None:
        d['return']['expr'] = expr
    return d


def st_function(name, args, statements, last_arg_array=False):
    f = {'name': name, 'statements': statements}
    if args:
        f['args'] = list(args)
    if last_arg_array:
        f['lastArgArray'] = True
    return {'function': f}


def st_include(*urls):
    incs = []
    for u in urls:
        if isinstance(u, tuple):
            incs.append({'url': u[0], 'system': True})
        else:
            incs.append({'url': u})
    return {'include': {'includes': incs}}


# -- renderer ------------------------------------------------------------------------------------
_PREC = {'**': 9, '*': 8, '/': 8, '%': 8, '+': 7, '-': 7, '<=': 6, '<': 6, '>=': 6, '>': 6,
         '==': 5, '!=': 5, '&&': 4, '||': 3}


def render_string(text):
    return "'" + text.replace('\\', '\\\\').replace("'", "\\'") + "'"


def render_number(n):
    if n == int(n) and abs(n) < 1e15:
        return str(int(n))
    return repr(float(n))


def render_expr(e):
    """Fully parenthesised where a binary operand is itself binary, so precedence never matters."""
    (k, v), = e.items()
    if k == 'number':
        text = render_number(v)
        return '(' + text + ')' if text.startswith('-') else text
    if k == 'string':
        return render_string(v)
    if k == 'variable':
        return v
    if k == 'function':
        return v['name'] + '(' + ', '.join(render_expr(a) for a in v.get('args', [])) + ')'
    if k == 'group':
        return '(' + render_expr(v) + ')'
    if k == 'unary':
        inner = render_expr(v['expr'])
        if 'binary' in v['expr'] or 'unary' in v['expr']:
            inner = '(' + inner + ')'
        return v['op'] + inner
    if k == 'binary':
        left = render_expr(v['left'])
        right = render_expr(v['right'])
        if 'binary' in v['left']:
            left = '(' + left + ')'
        if 'binary' in v['right']:
            right = '(' + right + ')'
        return f'{left} {v["op"]} {right}'
    raise ValueError(k)


def render_statements(statements, indent=''):
    lines = []
    for st in statements:
        (k, v), = st.items()
        if k == 'expr':
            if 'name' in v:
                lines.append(f'{indent}{v["name"]} = {render_expr(v["expr"])}')
            else:
                lines.append(f'{indent}{render_expr(v["expr"])}')
        elif k == 'jump':
            if 'expr' in v:
                lines.append(f'{indent}jumpif ({render_expr(v["expr"])}) {v["label"]}')
            else:
                lines.append(f'{indent}jump {v["label"]}')
        elif k == 'label':
            lines.append(f'{indent}{v}:')
        elif k == 'return':
            if 'expr' in v:
                lines.append(f'{indent}return {render_expr(v["expr"])}')
            else:
                lines.append(f'{indent}return')
        elif k == 'function':
            args = ', '.join(v.get('args', []))
            if v.get('lastArgArray'):
                args += '...'
            lines.append(f'{indent}function {v["name"]}({args}):')
            lines.extend(render_statements(v['statements'], indent + '    '))
            lines.append(f'{indent}endfunction')
        elif k == 'include':
            for inc in v['includes']:
                if inc.get('system'):
                    lines.append(f'{indent}include <{inc["url"]}>')
                else:
                    lines.append(f'{indent}include {render_string(inc["url"])}')
        else:
            raise ValueError(k)
    return lines


def render(statements):
    return '\n'.join(render_statements(statements)) + '\n'


def strip_groups(e):
    """Model equality modulo redundant groups (the renderer adds parentheses)."""
    if isinstance(e, dict):
        if len(e) == 1 and 'group' in e:
            return strip_groups(e['group'])
        return {k: strip_groups(v) for k, v in e.items()}
    if isinstance(e, list):
        return [strip_groups(v) for v in e]
    return e
