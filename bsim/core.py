"""Simulator core: PRNG streams, canonical values, event history, the options seam,
and the baton-passing scheduler that decides every interleaving.

Nothing in here reads a real clock or an unseeded PRNG.
"""
import collections
import datetime as _dt
import hashlib
import math
import random
import re
import threading

_REGEX_TYPE = type(re.compile(''))


# --------------------------------------------------------------------------------------------
# PRNG streams: one integer decides everything
# --------------------------------------------------------------------------------------------

def stream(seed, name):
    """An independent, named PRNG stream derived from the run seed."""
    h = hashlib.sha256(f'{seed}:{name}'.encode()).digest()
    return random.Random(int.from_bytes(h[:8], 'big'))


def answer_hash(seed, *parts):
    """Counter-based environment answer: a pure function of its arguments."""
    h = hashlib.sha256((':'.join(str(p) for p in (seed,) + parts)).encode()).digest()
    return int.from_bytes(h[:8], 'big')


# --------------------------------------------------------------------------------------------
# Exceptions used by the simulator (BaseException so that `except Exception` cannot contain them)
# --------------------------------------------------------------------------------------------

class SimCrash(BaseException):
    """Out-of-band kill of a simulated client at a seam (cancellation / crash)."""


class SimKill(BaseException):
    """Tear-down of a parked client thread when a run is abandoned."""


class SimWatchdog(BaseException):
    """A run produced more seam events than any correct run could."""


class HarnessError(Exception):
    """The simulator itself is wrong or a worker died; never a property violation."""


# --------------------------------------------------------------------------------------------
# Last-resort hang guard (CPU time of the process; wall clock x10 as backstop). It never decides an outcome of a correct run: it only turns
# a run that would spin forever without reaching any seam into a SimWatchdog in the spinning thread.
# --------------------------------------------------------------------------------------------

class WallGuard:
    LIMIT_S = 60.0

    def __init__(self):
        self.lock = threading.Lock()
        self.deadline = None
        self.wall_deadline = None
        self.ident = None
        self.thread = None
        self.fired = 0

    def _loop(self):
        import ctypes
        import time
        while True:
            time.sleep(0.5)
            with self.lock:
                # the limit is counted in CPU time of this process (a spinning run burns it; a machine that is merely
                # overloaded does not), with ten times the limit in wall time as the backstop for a run that blocks
                if self.deadline is not None and self.ident is not None and \
                        (time.process_time() > self.deadline or time.monotonic() > self.wall_deadline):
                    self.fired += 1
                    ctypes.pythonapi.PyThreadState_SetAsyncExc(ctypes.c_ulong(self.ident), ctypes.py_object(SimWatchdog))
                    self.deadline = time.process_time() + 5.0   # keep firing until the run unwinds
                    self.wall_deadline = time.monotonic() + 5.0

    def arm(self, seconds=None):
        import time
        if self.thread is None:
            self.thread = threading.Thread(target=self._loop, daemon=True)
            self.thread.start()
        with self.lock:
            self.deadline = time.process_time() + (seconds or self.LIMIT_S)
            self.wall_deadline = time.monotonic() + 10 * (seconds or self.LIMIT_S)
            self.ident = threading.get_ident()

    def running_in(self, ident):
        with self.lock:
            self.ident = ident

    def disarm(self):
        with self.lock:
            self.deadline = None


GUARD = WallGuard()


# --------------------------------------------------------------------------------------------
# Canonical form of BareScript values (for histories, comparison with reference models)
# --------------------------------------------------------------------------------------------

def canon(value, _stack=None, _depth=0):
    """JSON-able canonical form. Integral floats and ints compare equal ("5" == "5.0")."""
    if value is None or value is True or value is False:
        return value
    if isinstance(value, str):
        return value
    if isinstance(value, (int, float)):
        if isinstance(value, float):
            if math.isnan(value):
                return ['n', 'nan']
            if math.isinf(value):
                return ['n', 'inf' if value > 0 else '-inf']
            if value == int(value) and abs(value) < 2 ** 63:
                return ['n', int(value)]
            return ['n', repr(value)]
        if abs(value) < 2 ** 63:
            return ['n', value]
        return ['n', 'big:' + hashlib.sha256(hex(value).encode()).hexdigest()[:12]]
    if isinstance(value, _dt.datetime):
        return ['dt', value.isoformat()]
    if isinstance(value, _dt.date):
        return ['d', value.isoformat()]
    if isinstance(value, (list, dict)):
        if _stack is None:
            _stack = []
        for ix, obj in enumerate(_stack):
            if obj is value:
                return ['cycle', len(_stack) - ix]
        if _depth > 40:
            return ['deep']
        _stack.append(value)
        try:
            if isinstance(value, list):
                return ['L', [canon(v, _stack, _depth + 1) for v in value]]
            return ['D', [[k if isinstance(k, str) else ['?key', type(k).__name__], canon(v, _stack, _depth + 1)]
                          for k, v in value.items()]]
        finally:
            _stack.pop()
    if callable(value):
        return ['fn']
    if isinstance(value, _REGEX_TYPE):
        return ['re', value.pattern, int(value.flags)]
    return ['?', type(value).__name__]


def find_non_values(cv, path='$'):
    """Paths inside a canonical value that are not BareScript values (C05.value)."""
    out = []
    if isinstance(cv, list) and cv:
        tag = cv[0]
        if tag == '?':
            out.append((path, cv[1]))
        elif tag == 'L':
            for ix, item in enumerate(cv[1]):
                out.extend(find_non_values(item, f'{path}[{ix}]'))
        elif tag == 'D':
            for key, item in cv[1]:
                if not isinstance(key, str):
                    out.append((path + '.<key>', key[1]))
                out.extend(find_non_values(item, f'{path}.{key}'))
    return out


def digest_of(obj):
    return hashlib.sha256(repr(obj).encode()).hexdigest()[:16]


# --------------------------------------------------------------------------------------------
# Counters (faults as fired, probes reached, distinct measures)
# --------------------------------------------------------------------------------------------

class Stats:
    """Mergeable counters. `faults` counts a fault when it FIRES, never when configured."""

    def __init__(self):
        self.c = collections.Counter()
        self.faults = collections.Counter()
        self.probes = collections.Counter()
        self.distinct = collections.defaultdict(set)   # name -> set of digests
        self.samples = []
        self.notes = collections.Counter()

    def merge(self, other):
        self.c.update(other.c)
        self.faults.update(other.faults)
        self.probes.update(other.probes)
        self.notes.update(other.notes)
        for k, v in other.distinct.items():
            self.distinct[k] |= v
        for s in other.samples:
            if len(self.samples) < 5:
                self.samples.append(s)

    def merge_counts(self, other):
        """merge everything (samples are handled by the caller)"""
        self.merge(other)

    def to_wire(self):
        return {'c': dict(self.c), 'faults': dict(self.faults), 'probes': dict(self.probes),
                'distinct': {k: sorted(v) for k, v in self.distinct.items()}, 'samples': self.samples,
                'notes': dict(self.notes)}

    @classmethod
    def from_wire(cls, w):
        s = cls()
        s.c.update(w['c'])
        s.faults.update(w['faults'])
        s.probes.update(w['probes'])
        s.notes.update(w['notes'])
        for k, v in w['distinct'].items():
            s.distinct[k] = set(v)
        s.samples = list(w['samples'])
        return s


class Violation:
    """One broken oracle rule: (property, rule) + a signature naming the concrete failing
    input/call-site/history class (used to match known findings) + free detail."""

    def __init__(self, prop, rule, signature, detail):
        self.prop = prop
        self.rule = rule
        self.signature = signature
        self.detail = detail

    def key(self):
        return (self.prop, self.rule, self.signature)

    def to_wire(self):
        return {'property': self.prop, 'rule': self.rule, 'signature': self.signature, 'detail': self.detail}

    def __repr__(self):
        return f'Violation({self.prop}.{self.rule} [{self.signature}] {self.detail!r:.300})'


# --------------------------------------------------------------------------------------------
# The options seam
# --------------------------------------------------------------------------------------------

class SimOptions(dict):
    """`options` handed to execute_script as a dict subclass.

    The runtime does `options['statementCount'] += 1` at the head of every statement: that write is
    the simulator's statement-start event (pre-emption point, crash point, logical clock tick).
    `copy()` keeps included scripts instrumented (the runtime runs includes under options.copy()).
    """
    __slots__ = ('sim_hook', 'default_seen', 'env_cell')

    def __init__(self, *a, **kw):
        dict.__init__(self, *a, **kw)
        self.sim_hook = None
        self.default_seen = None
        self.env_cell = None

    def __setitem__(self, key, value):
        dict.__setitem__(self, key, value)
        if key == 'statementCount' and self.sim_hook is not None:
            self.sim_hook(self, value)

    def get(self, key, default=None):
        if key == 'maxStatements' and self.default_seen is not None:
            self.default_seen.append(default)
        return dict.get(self, key, default)

    def copy(self):
        c = SimOptions(self)
        c.sim_hook = self.sim_hook
        c.default_seen = self.default_seen
        c.env_cell = self.env_cell
        return c


# --------------------------------------------------------------------------------------------
# Baton-passing scheduler
# --------------------------------------------------------------------------------------------

class Task:
    __slots__ = ('name', 'fn', 'thread', 'sem', 'done', 'result', 'error', 'crash_at', 'killed',
                 'events', 'stall', 'started', 'pending_event')

    def __init__(self, name, fn):
        self.name = name
        self.fn = fn
        self.thread = None
        self.sem = threading.Semaphore(0)
        self.done = False
        self.result = None
        self.error = None
        self.crash_at = None      # seam-event ordinal (per task) at which SimCrash is delivered
        self.killed = False
        self.events = 0
        self.stall = 0            # scheduler steps this task stays parked
        self.started = False
        self.pending_event = None


class Scheduler:
    """Runs client tasks in real threads; exactly one holds the baton; a seeded PRNG picks who
    proceeds at every seam event. The global event sequence number orders the history."""

    STACK = 64 * 1024 * 1024

    def __init__(self, rng, max_events=20000, on_step=None, policy='random'):
        self.rng = rng
        self.tasks = []
        self.main_sem = threading.Semaphore(0)
        self.history = []          # (seq, task, kind, payload)
        self.seq = 0
        self.current = None
        self.max_events = max_events
        self.on_step = on_step     # invariant hook, called in the scheduler thread after every step
        self.choices = []          # task index chosen at each scheduling decision (the schedule)
        self.forced = None         # replay: list of choices to follow
        self.policy = policy
        self.abandon = False
        self.watchdog_tripped = False

    # -- called from the scheduler (main) thread ------------------------------------------------
    def add(self, name, fn):
        t = Task(name, fn)
        self.tasks.append(t)
        return t

    def _bootstrap(self, task):
        task.sem.acquire()
        try:
            if task.killed:
                raise SimKill()
            task.result = task.fn(task)
        except SimKill:
            task.error = ('killed', None)
        except SimCrash as exc:
            task.error = ('crash', str(exc))
        except SimWatchdog as exc:
            task.error = ('watchdog', str(exc))
        except BaseException as exc:  # pylint: disable=broad-except
            task.error = ('exception', exc)
        finally:
            task.done = True
            self.main_sem.release()

    def run(self):
        old = threading.stack_size()
        threading.stack_size(self.STACK)
        try:
            for t in self.tasks:
                t.thread = threading.Thread(target=self._bootstrap, args=(t,), daemon=True)
                t.thread.start()
        finally:
            threading.stack_size(old)
        ix_forced = 0
        try:
            while True:
                runnable = [ix for ix, t in enumerate(self.tasks) if not t.done]
                if not runnable:
                    break
                ready = [ix for ix in runnable if self.tasks[ix].stall <= 0]
                for ix in runnable:
                    if self.tasks[ix].stall > 0:
                        self.tasks[ix].stall -= 1
                if not ready:
                    continue
                if self.forced is not None and ix_forced < len(self.forced) and self.forced[ix_forced] in ready:
                    pick = self.forced[ix_forced]
                elif self.forced is not None or self.policy == 'lowest':
                    pick = ready[0]
                else:
                    pick = ready[self.rng.randrange(len(ready))]
                ix_forced += 1
                self.choices.append(pick)
                task = self.tasks[pick]
                self.current = task
                GUARD.running_in(task.thread.ident)
                task.sem.release()
                self.main_sem.acquire()
                GUARD.running_in(threading.get_ident())
                self.current = None
                if self.on_step is not None:
                    self.on_step(self, task)
                if self.abandon:
                    break
        finally:
            self._teardown()
        return self.history

    def _teardown(self):
        for t in self.tasks:
            guard = 0
            while not t.done:
                t.killed = True
                t.sem.release()
                self.main_sem.acquire()
                guard += 1
                if guard > 100000:
                    raise HarnessError(f'task {t.name} does not die')
        for t in self.tasks:
            if t.thread is not None:
                t.thread.join(10)
                if t.thread.is_alive():
                    raise HarnessError(f'thread of task {t.name} still alive')

    # -- called from task threads ---------------------------------------------------------------
    def event(self, task, kind, payload=None, yield_=True):
        """Record a seam event of `task`, then hand the baton back to the scheduler."""
        if task.killed:
            raise SimKill()
        self.seq += 1
        task.events += 1
        self.history.append((self.seq, task.name, kind, payload))
        if self.seq > self.max_events:
            self.watchdog_tripped = True
            raise SimWatchdog(f'more than {self.max_events} events')
        if task.crash_at is not None and task.events >= task.crash_at:
            task.crash_at = None
            self.history.append((self.seq, task.name, 'CRASH', None))
            raise SimCrash(f'crash at event {task.events}')
        if yield_:
            self.main_sem.release()
            task.sem.acquire()
            if task.killed:
                raise SimKill()

    def interleaving_digest(self):
        return digest_of(self.choices)
