"""The simulated world of one client: host functions, log sink, fetch function (VFS).

The same class serves the real run and the reference run (two instances built from the same plan),
so that answers and faults are a pure function of (plan, call site, occurrence) and one divergence
does not cascade. 
"""
import collections

from .core import canon
from .refvm import HostFailure
from . import resolve as _resolve

EXC_CLASSES = {}


class SimHostError(Exception):
    """A custom Exception subclass raised by simulated host functions."""


class SimBaseError(BaseException):
    """A BaseException subclass (like asyncio.CancelledError) raised by simulated FETCH functions only: the
    library's fetch call sites catch everything, so the fetch counts as failed."""


def _exc_classes():
    if not EXC_CLASSES:
        EXC_CLASSES.update({
            'ValueError': ValueError, 'TypeError': TypeError, 'KeyError': KeyError, 'IndexError': IndexError,
            'ZeroDivisionError': ZeroDivisionError, 'OverflowError': OverflowError,
            'RecursionError': RecursionError, 'MemoryError': MemoryError, 'StopIteration': StopIteration,
            'AttributeError': AttributeError, 'OSError': OSError, 'SimHostError': SimHostError,
            'UnicodeDecodeError': lambda msg: UnicodeDecodeError('utf-8', b'\xff', 0, 1, msg),
            'AssertionError': AssertionError, 'LookupError': LookupError, 'RuntimeError': RuntimeError,
            'SimBaseError': SimBaseError,
        })
    return EXC_CLASSES


EXC_NAMES = ('ValueError', 'TypeError', 'KeyError', 'IndexError', 'ZeroDivisionError', 'OverflowError',
             'RecursionError', 'MemoryError', 'StopIteration', 'AttributeError', 'OSError',
             'UnicodeDecodeError', 'SimHostError', 'ValueArgsError')


FETCH_EXC_NAMES = tuple(n for n in EXC_NAMES if n != 'ValueArgsError') + ('SimBaseError', 'SimBaseError')


def make_exception(name, message, return_value=None):
    if name == 'ValueArgsError':
        from bare_script.value import ValueArgsError
        exc = ValueArgsError('simulated', message, return_value)
        return exc
    return _exc_classes()[name](message)


class Env:
    """plan keys:
         answers: {site: {'seq': [...], 'then': v}}      environment answers for hostNext(site)
         faults:  [{'fn': name, 'occ': k, 'exc': cls, 'rv': v?}]   host failures
         files:   {location(normalised): {'text': str, 'ir': [...]|None, ...}}
         fetch_faults: [{'occ': k, 'kind': 'missing'|'raise'|'none'|'torn', 'exc'?, 'keep'?}]
    """

    def __init__(self, plan, who='real', stats=None):
        self.plan = plan
        self.who = who
        self.events = []
        self.occ = collections.Counter()
        self.faults = {}
        for f in plan.get('faults', ()):
            self.faults[(f['fn'], f['occ'])] = f
        self.fetch_faults = {f['occ']: f for f in plan.get('fetch_faults', ())}
        self.fired = collections.Counter()
        self.on_event = None       # optional hook (scheduler yield / online comparison)
        self.tag = plan.get('tag', '')
        self.delivered = {}        # location -> parsed statements of the delivered text
        self.reenter = None
        self.raw_urls = []
        # nested, independent uses of the library inside this world's callbacks (real runs only)
        self.interlopers = {}
        if who == 'real':
            for f in plan.get('interlopers', ()):
                self.interlopers.setdefault((f['fn'], f['occ']), f['kind'])
        self.interference = []

    # -- recording ---------------------------------------------------------------------------
    def rec(self, kind, *payload, ctx=None):
        ev = (kind,) + payload
        self.events.append(ev)
        if self.on_event is not None:
            self.on_event(ev)

    # -- host functions ------------------------------------------------------------------------
    def _interloper(self, site, occ):
        kind = self.interlopers.get((site, occ))
        if kind is not None:
            from . import interloper
            self.fired['interloper:' + kind] += 1
            bad = interloper.run(kind)
            if bad is not None:
                bad['site'] = [site, occ]
                self.interference.append(bad)

    def host(self, name, args, invoke, ctx=None):
        self.occ[name] += 1
        occ = self.occ[name]
        if self.interlopers:
            self._interloper(name, occ)
        fault = self.faults.get((name, occ))
        if fault is not None:
            self.fired['host_raise:' + fault['exc']] += 1
            self.rec('fail', name, occ, fault['exc'], ctx=ctx)
            raise HostFailure(fault['exc'], f'sim {name}#{occ}', fault.get('rv'))
        if name == 'hostTick':
            self.rec('tick', canon(args), ctx=ctx)
            return None
        if name == 'hostNext':
            site = args[0] if args else None
            if not isinstance(site, str):
                site = '?'
            self.occ['site:' + site] += 1
            k = self.occ['site:' + site]
            spec = self.plan.get('answers', {}).get(site)
            if spec is None:
                value = None
            elif k <= len(spec['seq']):
                value = spec['seq'][k - 1]
            elif spec.get('cyclic') and spec['seq']:
                value = spec['seq'][(k - 1) % len(spec['seq'])]
            else:
                value = spec.get('then')
            self.rec('next', site, k, canon(value), ctx=ctx)
            return value
        if name == 'hostObserve':
            self.rec('obs', canon(args), ctx=ctx)
            return args[1] if len(args) > 1 else None
        if name == 'hostCall':
            self.rec('call', canon(args[1:]), ctx=ctx)
            if not args or not callable(args[0]):
                return None
            result = invoke(args[0], list(args[1:]))
            self.rec('ret', canon(result), ctx=ctx)
            return result
        if name == 'hostFail':
            self.rec('tick', canon(args), ctx=ctx)
            return None
        if name == 'hostReenter':
            self.rec('reenter', canon(args), ctx=ctx)
            if self.reenter is not None:
                return self.reenter(args, ctx)
            return None
        raise AssertionError(name)

    # -- log -----------------------------------------------------------------------------------
    def log(self, text, ctx=None):
        if self.interlopers:
            self.occ['log'] += 1
            self._interloper('log', self.occ['log'])
        self.rec('log', text, ctx=ctx)

    # -- fetch (VFS) ---------------------------------------------------------------------------
    def fetch(self, url, ctx=None):
        """Returns text or None; raises HostFailure for a raising fetch function."""
        self.occ['fetch'] += 1
        occ = self.occ['fetch']
        if self.interlopers:
            self._interloper('fetch', occ)
        norm = _resolve.normalise(url) if isinstance(url, str) else None
        self.raw_urls.append(url)
        fault = self.fetch_faults.get(occ)
        entry = self.plan.get('files', {}).get(norm)
        if fault is not None:
            kind = fault['kind']
            self.fired['fetch_' + kind] += 1
            if kind == 'raise':
                self.rec('fetch', norm, 'raise:' + fault['exc'], ctx=ctx)
                raise HostFailure(fault['exc'], f'sim fetch#{occ}')
            if kind == 'none' or entry is None:
                self.rec('fetch', norm, 'none', ctx=ctx)
                return None
            if kind == 'torn':
                lines = entry['text'].split('\n')
                keep = min(fault['keep'], len(entry['cuts']) - 1)
                n_lines, n_stmts = entry['cuts'][keep]
                text = '\n'.join(lines[:n_lines]) + ('\n' if n_lines else '')
                from .gen_exec import merge_includes
                self.delivered[norm] = merge_includes(entry['stmts'][:n_stmts])
                self.rec('fetch', norm, f'torn:{n_lines}', ctx=ctx)
                return text
        if entry is None:
            self.fired['fetch_missing'] += 1
            self.rec('fetch', norm, 'missing', ctx=ctx)
            return None
        self.delivered[norm] = entry.get('ir')
        self.rec('fetch', norm, 'ok', ctx=ctx)
        return entry['text']

    def parsed_for(self, location, text):
        """The reference's view of what the delivered text of `location` means (None = broken)."""
        return self.delivered.get(_resolve.normalise(location))
