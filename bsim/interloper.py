"""Interlopers: a second, independent use of the library that happens INSIDE a host callback of the run under
observation (fault kind `interloper:<kind>`).

An embedding application's host function, fetchFn, logFn or chunk reader may itself use bare-script — parse a
snippet, run a small script with its own options and globals, evaluate an expression. The two uses share nothing
the caller passed in, so the observed run must behave exactly as if the nested use had not happened, and the
nested use must give what it gives on its own. Anything else means the library keeps call state somewhere
outside the objects it was given (a module-level "current base", counter, label cache, scratch buffer).

`calibrate()` runs every kind once in the pristine process (before any observed run) and remembers the summaries;
`run(kind)` returns None when the nested use behaved as calibrated, else a description of the difference.
"""
import json

KINDS = ('exec_abort', 'exec_ok', 'parse', 'parse_error', 'expr')
_EXPECTED = {}

_MAIN = '''\
function interFn(n):
    total = 0
    loop:
    jumpif (n <= 0) done
    total = total + n
    n = n - 1
    jump loop
    done:
    return total
endfunction
interA = interFn(3)
include 'sub/inc.bare'
interC = systemFetch('data.txt')
interD = arrayGet(arrayNew(1), 5)
systemLog('inter ' + interA + ' ' + interB + ' ' + interC)
while LOOP:
    interA = interA + 1
endwhile
return arrayNew(interA, interB, interC, interD)
'''
_INC = '''\
include 'deeper.bare'
interB = interFn(2) + interE
'''
_DEEPER = '''\
interE = 10
'''
_FILES = {'inter/sub/inc.bare': _INC, 'inter/sub/deeper.bare': _DEEPER, 'inter/data.txt': 'DATA'}

_PARSE_OK = '''\
# interloper
function pf(a, b):
    if a > b:
        return a \\
            + b
    endif
    for v, i in arrayNew(1, 2):
        systemLog('v' + v)
    endfor
endfunction
include <sys.bare>
x = pf(1, \\
  2)
'''
_PARSE_BAD = '''\
a = 1
b = 2
while a < 3:
    c = (a +
endwhile
'''


def _exec(loop_cond, limit):
    import functools
    from bare_script import parse_script, execute_script, BareScriptRuntimeError
    from bare_script.options import url_file_relative
    fetched = []
    logs = []

    def fetch_fn(request):
        url = request['url'] if isinstance(request, dict) else request
        fetched.append(url)
        return _FILES.get(url)

    options = {'globals': {}, 'fetchFn': fetch_fn, 'logFn': logs.append, 'debug': True,
               'urlFn': functools.partial(url_file_relative, 'inter/main.bare'), 'maxStatements': limit}
    model = parse_script(_MAIN.replace('LOOP', loop_cond), 1)
    try:
        result = ('ok', execute_script(model, options))
    except BareScriptRuntimeError as exc:
        result = ('rt', str(exc))
    g = options['globals']
    return {'result': result, 'fetched': fetched, 'logs': logs, 'count': options.get('statementCount'),
            'globals': {k: g.get(k) for k in ('interA', 'interB', 'interC', 'interD', 'interE')}}


def _run_kind(kind):
    from bare_script import parse_script, parse_expression, evaluate_expression, BareScriptParserError
    if kind == 'exec_abort':
        return _exec('true', 60)
    if kind == 'exec_ok':
        return _exec('interA < 9', 200)
    if kind == 'parse':
        return parse_script(_PARSE_OK, 5)
    if kind == 'parse_error':
        try:
            parse_script(iter(_PARSE_BAD.splitlines(True)), 3)
        except BareScriptParserError as exc:
            return {'error': str(exc), 'line': getattr(exc, 'line_number', None), 'column': getattr(exc, 'column_number', None)}
        return {'error': None}
    if kind == 'expr':
        options = {'globals': {'gv': 4.0, 'fnG': lambda args, options: args[0] * 2}}
        return [evaluate_expression(parse_expression("1 + max(2, 3) * fnG(gv) + len('abc')"), options),
                evaluate_expression(parse_expression('1 / 0 + unknownVar'), options)]
    raise AssertionError(kind)


def _summary(kind):
    try:
        return json.dumps(_run_kind(kind), sort_keys=True, default=repr)
    except Exception as exc:  # pylint: disable=broad-except
        return f'EXCEPTION {type(exc).__name__}: {exc}'


def calibrate():
    """Once per process, before any observed run."""
    if not _EXPECTED:
        for kind in KINDS:
            _EXPECTED[kind] = _summary(kind)
    return _EXPECTED


def run(kind):
    """Run the nested use now. None if it behaved as on its own, else {'kind', 'expected', 'got'}."""
    if kind not in _EXPECTED:
        return None
    got = _summary(kind)
    if got != _EXPECTED[kind]:
        return {'kind': kind, 'expected': _EXPECTED[kind][:600], 'got': got[:600]}
    return None


def spec(rng, sites=('hostTick', 'hostNext', 'hostObserve', 'fetch', 'log'), max_occ=6):
    """A seeded interloper plan: one to three (call site, occurrence, kind) triples."""
    return [{'fn': rng.choice(sites), 'occ': rng.randint(1, max_occ), 'kind': rng.choice(KINDS)}
            for _ in range(rng.choice([1, 1, 2, 3]))]
